"""C20 Tools round trip: extracting a built image reproduces the source tree."""
import hashlib
import os
import random
import shutil
import subprocess
import sys
import tempfile

from harness import env
from harness.indep import ecma119, udf as iudf, susp
from harness.props import common, c18

PROPERTY = 'C20'
LEVEL = 'exploration'
RULE = ('source trees generated on disk (names colliding after mangling, Unicode, nesting to 6 (to 11 with Rock Ridge), empty files and directories, symlinks, '
        'identical contents, same-size files) x option sets of pycdlib-genisoimage (-iso-level 1..4 x {-R,-r,none} x -J x -udf x '
        '-scan-for-duplicates x El Torito boot options x -hide/-exclude patterns); both tools run as real subprocess entry points from '
        '/repo/tools. Oracle: os.walk/lstat/readlink/sha1 comparison of the tree extracted by pycdlib-extract-files per requested long-name '
        'view (rockridge, joliet, udf) with the source tree; the plain ISO9660 view through harness/indep/ecma119.py: every source file '
        'exactly once under a legal, distinct identifier; requested extensions present/absent per the independent decoders. distinct = '
        '(option set, tree shape class); non-trivial = tree has a mangling collision, a symlink or duplicate contents')
ASSUMPTIONS = ['the tools are run with /venv/bin/python and PYTHONPATH=/repo', 'tmp directories on the local filesystem support symlinks and UTF-8 names']
REQUIRED_COUNTERS = {'tool_runs': 40, 'views_compared': 20}

GENISO = os.path.join(env.REPO, 'tools', 'pycdlib-genisoimage')
EXTRACT = os.path.join(env.REPO, 'tools', 'pycdlib-extract-files')


def plan(tier):
    return 240 if tier == 'quick' else 8000


def make_tree(rng, root, opts):
    """Returns description {relpath: ('dir'|'file'|'symlink', payload)}."""
    desc = {}
    names_pool = ['readme.txt', 'README.TXT', 'Makefile', 'a', 'data.tar.gz', 'very_long_file_name_number_one.dat', 'very_long_file_name_number_two.dat',
                  'verylongname1', 'verylongname2', 'verylongname3', 'file with spaces.txt', 'ünïcödé.txt', '日本語.txt', 'UPPER.TXT', 'x.y.z', '.hidden',
                  'noext', 'trailingdot.', 'semi;colon', 'abc', 'ab', 'abcd.e', 'boot.img', 'kernel', 'initrd.img-5.10.0-amd64', 'ßharp.txt', 'ﬁle.txt']
    contents_pool = [b'', b'hello\n', b'same content\n' * 10, random.Random(7).randbytes(3000), random.Random(8).randbytes(3000), b'x' * 2048, b'y' * 2049]
    dirs = ['']
    ndirs = rng.choice([0, 2, 5])
    for k in range(ndirs):
        parent = rng.choice(dirs)
        if parent.count('/') >= 4:
            parent = ''
        nm = rng.choice(['dir', 'subdirectory_with_long_name', 'subdirectory_with_long_name2', 'Dir', 'd.ir', 'ディレクトリ', 'emptydir', 'a']) + ('' if rng.random() < 0.5 else str(k))
        rel = (parent + '/' if parent else '') + nm
        if rel in desc:
            continue
        os.makedirs(os.path.join(root, rel), exist_ok=True)
        desc[rel] = ('dir', None)
        dirs.append(rel)
    nfiles = rng.choice([1, 4, 10, 20])
    for k in range(nfiles):
        parent = rng.choice(dirs)
        nm = rng.choice(names_pool)
        if rng.random() < 0.3:
            nm = 'collide_prefix_%d.txt' % k
        rel = (parent + '/' if parent else '') + nm
        if rel in desc or os.path.lexists(os.path.join(root, rel)):
            continue
        data = rng.choice(contents_pool) if rng.random() < 0.7 else random.Random(k * 31 + len(nm)).randbytes(rng.choice([1, 100, 3000, 5000]))
        with open(os.path.join(root, rel), 'wb') as f:
            f.write(data)
        desc[rel] = ('file', data)
    if opts.get('fill'):
        # a directory whose records fill their last sector exactly in one of the views: 45 names of
        # five characters are 34+34+45*44 = 2048 bytes of Joliet records
        os.makedirs(os.path.join(root, 'data'), exist_ok=True)
        desc.setdefault('data', ('dir', None))
        for k in range(rng.choice([44, 45, 45, 46])):
            rel = 'data/f%02d.x' % k
            payload = b'fill %d\n' % k
            with open(os.path.join(root, rel), 'wb') as f:
                f.write(payload)
            desc[rel] = ('file', payload)
        os.makedirs(os.path.join(root, 'zlast'), exist_ok=True)
        desc.setdefault('zlast', ('dir', None))
    if opts.get('dups'):
        # duplicate detection works on content: files of one size that agree in their last block(s)
        # and differ earlier must stay different files
        tail = random.Random(11).randbytes(40000)
        for k in range(rng.choice([2, 3])):
            parent = rng.choice(dirs)
            rel = (parent + '/' if parent else '') + 'neardup%d.bin' % k
            if rel in desc:
                continue
            n = rng.choice([32768, 40000, 65536, 70001])
            data = random.Random(100 + k).randbytes(rng.choice([1, 5000, 32768])) 
            data = (data + tail)[:n] if len(data) < n else data[:n]
            data = data[:len(data) - min(len(data), 7000)] + tail[-min(len(data), 7000):]
            with open(os.path.join(root, rel), 'wb') as f:
                f.write(data)
            desc[rel] = ('file', data)
        # files of one size (every size modulo 4) that differ in nothing but their last byte(s)
        n_ = rng.choice([11, 40003, 4098, 77, 1000])
        common_ = random.Random(12).randbytes(n_)
        for k in range(2):
            rel = 'lastbyte%d.bin' % k
            data = common_[:-1] + bytes([65 + k])
            with open(os.path.join(root, rel), 'wb') as f:
                f.write(data)
            desc[rel] = ('file', data)
    if opts.get('deep'):
        # deep nesting (only with Rock Ridge: plain ISO9660 stops at eight levels): a chain of
        # directories to depth 8..11 with files on the way, and siblings at the relocation depth
        depth = rng.choice([8, 9, 11])
        rel = ''
        for d in range(1, depth + 1):
            rel = (rel + '/' if rel else '') + rng.choice(['n%d' % d, 'deep_directory_level_%d' % d])
            os.makedirs(os.path.join(root, rel), exist_ok=True)
            desc[rel] = ('dir', None)
            if d >= 7 and rng.random() < 0.7:
                fr = rel + '/f%d.txt' % d
                data = b'deep %d\n' % d
                with open(os.path.join(root, fr), 'wb') as f:
                    f.write(data)
                desc[fr] = ('file', data)
            if d == 8 and rng.random() < 0.5:
                # a second directory of the same name at the relocation depth under another parent
                par7 = rel.rsplit('/', 2)[0] + '/other7'
                twin = par7 + '/' + rel.rsplit('/', 1)[1]
                os.makedirs(os.path.join(root, twin), exist_ok=True)
                desc[par7] = ('dir', None)
                desc[twin] = ('dir', None)
                with open(os.path.join(root, twin, 'in_twin'), 'wb') as f:
                    f.write(b'twin')
                desc[twin + '/in_twin'] = ('file', b'twin')
            if d == 8 and rng.random() < 0.6:
                sib = rel.rsplit('/', 1)[0] + '/' + rng.choice(['sibling', 'n8x'])
                os.makedirs(os.path.join(root, sib), exist_ok=True)
                desc[sib] = ('dir', None)
                with open(os.path.join(root, sib, 'in_sibling'), 'wb') as f:
                    f.write(b'sib')
                desc[sib + '/in_sibling'] = ('file', b'sib')
    if opts.get('symlinks'):
        for k in range(rng.choice([1, 3])):
            parent = rng.choice(dirs)
            rel = (parent + '/' if parent else '') + 'link%d' % k
            if rel in desc:
                continue
            target = rng.choice(['readme.txt', '../x', '/etc/passwd', 'a/b/c', '.', 'dir'])
            if rng.random() < 0.4:
                # long targets whose component boundaries fall near the end of an SL record
                first = rng.choice([90, 97, 110, 126, 127, 128, 129, 130, 150, 200])
                target = 'a' * first + '/' + 'b' * rng.choice([1, 30, 120]) + '/c'
            os.symlink(target, os.path.join(root, rel))
            desc[rel] = ('symlink', target)
    return desc


def scan(root):
    out = {}
    for dp, dns, fns in os.walk(root):
        for n in dns + fns:
            full = os.path.join(dp, n)
            rel = os.path.relpath(full, root)
            if os.path.islink(full):
                out[rel] = ('symlink', os.readlink(full))
            elif os.path.isdir(full):
                out[rel] = ('dir', None)
            else:
                with open(full, 'rb') as f:
                    out[rel] = ('file', f.read())
    return out


def run_tool(cmd, counters, timeout=300, cwd=None):
    e = dict(os.environ)
    e['PYTHONPATH'] = env.REPO
    e['PYTHONHASHSEED'] = '0'
    e['LC_ALL'] = 'C.UTF-8'
    counters['tool_runs'] = counters.get('tool_runs', 0) + 1
    p = subprocess.run(['/venv/bin/python'] + cmd, stdout=subprocess.PIPE, stderr=subprocess.PIPE, env=e, timeout=timeout, cwd=cwd)
    return p.returncode, p.stdout.decode('utf-8', 'replace'), p.stderr.decode('utf-8', 'replace')


def option_set(rng, idx):
    opts = {'level': [1, 2, 3, 4][idx % 4], 'rock': [None, '-R', '-r', '-r'][(idx // 4) % 4], 'joliet': bool((idx // 16) % 2), 'udf': bool((idx // 32) % 2)}
    opts['dups'] = rng.random() < 0.3
    opts['boot'] = rng.random() < 0.2
    opts['symlinks'] = rng.random() < 0.6
    opts['hide'] = rng.random() < 0.2
    opts['nobak'] = rng.random() < 0.15
    opts['fill'] = rng.random() < 0.15
    opts['deep'] = bool(opts['rock']) and opts['level'] < 4 and rng.random() < 0.25
    return opts


def one_case(cs, idx, counters):
    from harness.props import c01
    vio = []
    rng = random.Random(cs)
    opts = option_set(rng, idx)
    tmp = tempfile.mkdtemp(prefix='verif-c20-')
    try:
        src = os.path.join(tmp, 'src')
        os.makedirs(src)
        desc = make_tree(rng, src, opts)
        if opts['boot']:
            # (a quarter of the boot images have a name without an extension)
            bootname = 'loader' if cs % 4 == 3 else 'bootimg.bin'
            with open(os.path.join(src, bootname), 'wb') as f:
                f.write(random.Random(3).randbytes(2048))
            desc[bootname] = ('file', random.Random(3).randbytes(2048))
            if rng.random() < 0.6:
                # ordinary files that look like the boot catalog / boot image: same name in another
                # directory, same size (one sector)
                os.makedirs(os.path.join(src, 'backup'), exist_ok=True)
                desc.setdefault('backup', ('dir', None))
                for nm, sd_ in (('backup/boot.cat', 41), ('backup/' + bootname, 42)):
                    data_ = random.Random(sd_).randbytes(2048)
                    with open(os.path.join(src, nm), 'wb') as f:
                        f.write(data_)
                    desc[nm] = ('file', data_)
        iso = os.path.join(tmp, 'out.iso')
        cmd = [GENISO, '-quiet', '-o', iso, '-iso-level', str(opts['level'])]
        if opts['rock']:
            cmd.append(opts['rock'])
        if opts['joliet']:
            cmd.append('-J')
        if opts['udf']:
            cmd.append('-udf')
        if opts['dups']:
            cmd.append('-scan-for-duplicates')
        boot_req = []     # (source file, load size asked for, boot info table asked for) per boot entry
        if opts['boot']:
            l1 = rng.choice([4, 4, 1, 8])
            bit = rng.random() < 0.3
            cmd += ['-b', bootname, '-c', 'boot.cat', '-no-emul-boot', '-boot-load-size', str(l1)] + (['-boot-info-table'] if bit else [])
            boot_req.append((bootname, l1, bit))
            for k in range(rng.choice([0, 0, 1, 2])):
                # further boot entries, each with its own parameters
                nm = 'efi%d.img' % k
                data_ = random.Random(50 + k).randbytes(rng.choice([2048, 4096, 5000]))
                with open(os.path.join(src, nm), 'wb') as f:
                    f.write(data_)
                desc[nm] = ('file', data_)
                lk = rng.choice([2, 8, 16, 4])
                cmd += ['-eltorito-alt-boot', '-e', nm, '-no-emul-boot', '-boot-load-size', str(lk)]
                boot_req.append((nm, lk, False))
        hidden_names = []
        if opts['hide']:
            files = [r for r, (k, _) in desc.items() if k == 'file' and '/' not in r and r not in ('bootimg.bin', 'loader') and not r.startswith('efi')]
            if files:
                # several patterns through the different spellings of the option: each one counts
                hidden_names = files[:rng.choice([1, 2, 3])]
                for j, hn in enumerate(hidden_names):
                    cmd += [['-exclude', '-m', '-x'][j % 3], hn]
        view_hidden = {'iso': [], 'joliet': [], 'udf': []}
        if not opts['dups'] and rng.random() < 0.25:
            # -hide / -hide-joliet / -hide-udf take a file out of one view only
            import re as _re
            plain = sorted({r.rsplit('/', 1)[-1] for r, (k, _) in desc.items() if k == 'file' and _re.fullmatch(r'[A-Za-z0-9._-]+', r.rsplit('/', 1)[-1])
                            and r.rsplit('/', 1)[-1] not in ('bootimg.bin', 'loader', 'boot.cat') and not r.startswith('efi')} - set(hidden_names))
            rng.shuffle(plain)
            for vw, flag, on in (('joliet', '-hide-joliet', opts['joliet']), ('udf', '-hide-udf', opts['udf']), ('iso', '-hide', opts['joliet'] or opts['udf'])):
                if on and plain and rng.random() < 0.6:
                    nm_ = plain.pop()
                    view_hidden[vw].append(nm_)
                    cmd += [flag, nm_]
            counters['per_view_hide_cases'] = counters.get('per_view_hide_cases', 0) + (1 if any(view_hidden.values()) else 0)
        if opts.get('nobak'):
            for rel, data in (('old.bak', b'backup\n'), ('note~', b'tilde\n'), ('x#y', b'hash\n')):
                with open(os.path.join(src, rel), 'wb') as f:
                    f.write(data)
            cmd.append('-nobak')
        cmd.append(src)
        rc, out, err = run_tool(cmd, counters)
        optkey = 'L%d%s%s%s' % (opts['level'], opts['rock'] or '', 'J' if opts['joliet'] else '', 'U' if opts['udf'] else '')
        if rc != 0 or not os.path.exists(iso):
            last = (err.strip().splitlines() or ['?'])[-1]
            cls = last.split(':')[0].split('.')[-1][:40]
            if opts['level'] == 4 and cls == 'PyCdlibInvalidInput' and any(';' in r for r in desc):
                cls = 'level4-identity:semicolon'
            vio.append({'key': 'genisoimage-fails:%s' % cls, 'detail': '%s: %s' % (optkey, last[:200])})
            return vio, opts, desc
        # -exclude matches the base name at every level
        # (a pattern that matches a directory's name takes the whole subtree out)
        expected = {r: v for r, v in desc.items() if not (set(r.split('/')) & set(hidden_names))}
        data = open(iso, 'rb').read()
        dec = ecma119.decode(data)
        # extensions exactly as requested
        rr = susp.decode(data, dec)
        u = iudf.decode(data)
        if bool(opts['rock']) != rr.present:
            vio.append({'key': 'ext:rock-ridge', 'detail': '%s: Rock Ridge %s' % (optkey, 'missing' if opts['rock'] else 'present although not requested')})
        if opts['joliet'] != (dec.joliet is not None):
            vio.append({'key': 'ext:joliet', 'detail': optkey})
        if opts['udf'] != u.present:
            vio.append({'key': 'ext:udf', 'detail': optkey})
        if (opts['level'] == 4) != (dec.enhanced is not None):
            vio.append({'key': 'ext:iso-level-4', 'detail': optkey})
        for k, d in dec.all_problems():
            if not k.startswith('sort:') and 'sort' not in k:
                vio.append({'key': 'image:%s' % k, 'detail': d})
        if boot_req and boot_req[0][2]:
            # -boot-info-table patches bytes 8..63 of the boot file as stored: PVD sector, file sector,
            # file length, checksum of the rest
            from harness.indep import eltorito as _iet
            et0 = _iet.decode(data)
            if et0.initial is not None:
                import struct as _st
                src_ = desc[boot_req[0][0]][1]
                words = _st.unpack('<%dI' % ((len(src_) - 64) // 4), src_[64:64 + (len(src_) - 64) // 4 * 4])
                table = _st.pack('<IIII', 16, et0.initial.load_rba, len(src_), sum(words) & 0xffffffff) + b'\x00' * 40
                expected[boot_req[0][0]] = ('file', src_[:8] + table + src_[64:])
                counters['boot_info_tables_expected'] = counters.get('boot_info_tables_expected', 0) + 1
        # boot options: one catalog entry per -b / -e, in order, with the load size given for it,
        # pointing at the sector where that file's bytes are
        if boot_req:
            from harness.indep import eltorito as _iet
            et = _iet.decode(data)
            entries = ([et.initial] if et.initial is not None else []) + [e for sec in et.sections for e in sec.entries]
            counters['boot_entries_checked'] = counters.get('boot_entries_checked', 0) + len(entries)
            if not et.present or len(entries) != len(boot_req):
                vio.append({'key': 'boot:entries', 'detail': '%s: %d boot entries asked for, catalog has %d' % (optkey, len(boot_req), len(entries))})
            else:
                for k, (e, (nm, lsize, bit)) in enumerate(zip(entries, boot_req)):
                    if e.sector_count != lsize:
                        vio.append({'key': 'boot:load-size', 'detail': '%s: entry %d (%s): load size %d, -boot-load-size %d was given for it' % (optkey, k, nm, e.sector_count, lsize)})
                    if e.media != 0:
                        vio.append({'key': 'boot:media', 'detail': '%s: entry %d (%s): media type %d, -no-emul-boot was given' % (optkey, k, nm, e.media)})
                    want_ = expected[nm][1] if nm in expected else desc[nm][1]
                    got_ = data[e.load_rba * 2048:e.load_rba * 2048 + len(want_)]
                    if got_ != want_ and nm not in hidden_names:
                        vio.append({'key': 'boot:load-rba', 'detail': '%s: entry %d: sector %d does not hold the bytes of %s' % (optkey, k, e.load_rba, nm)})
        # plain view: every source file exactly once under a legal, distinct identifier
        files_src = [r for r, (k, _) in expected.items() if k == 'file' and r.rsplit('/', 1)[-1] not in view_hidden['iso']]
        # (the placeholder a relocated directory leaves at its original place is a record with a CL
        # entry, not a file of the tree)
        iso_files = {p: n for p, n in dec.pvd.tree.items() if n.kind == 'file'
                     and not (rr.present and p in rr.entries and rr.entries[p].cl is not None)}
        datas = {}
        for p, n in iso_files.items():
            ident = p.rsplit('/', 1)[1]
            if ident.upper().startswith('BOOT.CAT') and p.count('/') == 1 and opts['boot']:
                continue    # the boot catalog itself (root directory), not a source file
            ok = c18.legal_file(ident, opts['level'])
            if ok is not True and ok is not None:
                vio.append({'key': 'iso-ident:illegal:%s' % ok, 'detail': '%s: %r' % (optkey, p)})
            datas.setdefault(hashlib.sha1(ecma119.read_file(data, n)).hexdigest() + ':%d' % n.length, []).append(p)
        want = {}
        for r in files_src:
            want.setdefault(hashlib.sha1(expected[r][1]).hexdigest() + ':%d' % len(expected[r][1]), []).append(r)
        symlinks_as_files = sum(1 for r, (k, _) in expected.items() if k == 'symlink') if (opts['rock'] or opts['udf']) else 0
        for h, rels in want.items():
            got = len(datas.get(h, []))
            extra_empty = symlinks_as_files if h.endswith(':0') else 0
            if got < len(rels):
                vio.append({'key': 'iso-ident:missing', 'detail': '%s: %d source files with this content, %d in the plain ISO9660 view (%s)' % (optkey, len(rels), got, rels[:2])})
            elif got > len(rels) + extra_empty:
                vio.append({'key': 'iso-ident:doubled', 'detail': '%s: %d source files with this content, %d in the plain ISO9660 view (%s)' % (optkey, len(rels), got, rels[:2])})
        # long-name views
        for view, flag, present in (('rockridge', '-path-type rockridge', bool(opts['rock'])), ('joliet', 'joliet', opts['joliet']), ('udf', 'udf', opts['udf'])):
            if not present:
                continue
            dest = os.path.join(tmp, 'x-' + view)
            os.makedirs(dest)
            # (the destination given relative to the working directory for every other case)
            if idx % 2:
                rc, out, err = run_tool([EXTRACT, '-path-type', view, '-extract-to', 'x-' + view, iso], counters, cwd=tmp)
            else:
                rc, out, err = run_tool([EXTRACT, '-path-type', view, '-extract-to', dest, iso], counters)
            if rc != 0:
                last = (err.strip().splitlines() or ['?'])[-1]
                vio.append({'key': 'view:%s:crash:%s' % (view, last.split(':')[0].split('.')[-1][:40]), 'detail': '%s: %s' % (optkey, last[:200])})
                continue
            got = scan(dest)
            counters['views_compared'] = counters.get('views_compared', 0) + 1
            hid_ = view_hidden['iso' if view == 'rockridge' else view]
            exp = {r: v for r, v in expected.items() if not (v[0] == 'file' and r.rsplit('/', 1)[-1] in hid_)}
            if opts['boot']:
                exp['boot.cat'] = ('file', None)
            for r in sorted(set(exp) - set(got)):
                kind = exp[r][0]
                if kind == 'symlink' and view == 'joliet':
                    continue
                vio.append({'key': 'view:%s:missing:%s' % (view, kind), 'detail': '%s: %r' % (optkey, r)})
            for r in sorted(set(got) - set(exp)):
                if r.lower() in ('rr_moved',) and view == 'rockridge':
                    vio.append({'key': 'view:rockridge:extra:rr_moved', 'detail': '%s: the relocation directory is extracted as an (empty) directory of the tree' % optkey})
                    continue
                vio.append({'key': 'view:%s:extra' % view, 'detail': '%s: %r' % (optkey, r)})
            for r in set(got) & set(exp):
                e, g = exp[r], got[r]
                if e[0] == 'symlink':
                    if view == 'joliet':
                        continue
                    if g[0] != 'symlink' or g[1] != e[1]:
                        vio.append({'key': 'view:%s:symlink' % view, 'detail': '%s: %r expected -> %r, got %s %r' % (optkey, r, e[1], g[0], (g[1] or b'')[:40])})
                elif e[0] != g[0]:
                    vio.append({'key': 'view:%s:kind' % view, 'detail': '%s: %r %s vs %s' % (optkey, r, e[0], g[0])})
                elif e[0] == 'file' and e[1] is not None and e[1] != g[1]:
                    vio.append({'key': 'view:%s:bytes%s' % (view, ':dup-link' if opts['dups'] else ''), 'detail': '%s: %r' % (optkey, r)})
    finally:
        shutil.rmtree(tmp, ignore_errors=True)
    return c01.dedup(vio), opts, desc


def run_case(i, seed, tier):
    counters = {}
    cs = seed * 1000003 + i
    vio, opts, desc = one_case(cs, i + seed * 7, counters)
    names = [r.rsplit('/', 1)[-1] for r in desc]
    collide = len(set(n[:8].upper() for n in names)) < len(names)
    nt = collide or any(k == 'symlink' for k, _ in desc.values()) or len(set(v for k, v in desc.values() if k == 'file')) < sum(1 for k, _ in desc.values() if k == 'file')
    for v in vio:
        v['replay'] = {'property': PROPERTY, 'case_seed': cs, 'idx': i + seed * 7}
    return {'verdict': 'violated' if vio else 'held', 'violations': vio, 'nontrivial': nt,
            'shape': '%s/%d/%d' % (sorted((k, str(v)) for k, v in opts.items()), len(desc), collide),
            'sample': {'options': opts, 'tree': sorted(desc)[:10]}, 'counters': counters}


def replay(doc):
    vio, _, _ = one_case(doc['case_seed'], doc['idx'], {})
    return vio
