"""C03 Written images are structurally valid ISO9660 for an independent reader."""
from harness import apiview, driver, env
from harness.gen import Gen
from harness.indep import ecma119
from harness.props import common

PROPERTY = 'C03'
LEVEL = 'exploration'
RULE = ('images written after random accepted histories (all 256 configurations incl. duplicate PVDs, level-4 enhanced descriptors, '
        'XA, multi-sector directories, >4 KiB path tables via the "grow" profile) are decoded by harness/indep/ecma119.py (no pycdlib '
        'code): descriptor set/terminator, both-byte-order fields, record packing, ./.. targets and lengths, bytewise + 9.3 order, '
        'L/M path tables vs. the hierarchy; then tree, hidden flags and file bytes are compared with the API view of the reopened '
        'image. distinct = (configuration, op-kind sequence) hash; non-trivial = >= 3 directories and (a directory > 1 sector or '
        '> 1 path-table level)')
ASSUMPTIONS = ['harness/indep/ecma119.py is the trusted reader (validated on corrupted images by bin/selftest-decoders)', 'determinism shim']
REQUIRED_COUNTERS = {'records_decoded': 100, 'files_compared': 10}


def plan(tier):
    return 1500 if tier == "quick" else 30000


def key_of(k):
    """Map decoder problem keys to the C03 taxonomy (prefix per volume kept)."""
    return k


def check_image(data, sess_model=None, counters=None, api_iso=None):
    counters = counters if counters is not None else {}
    vio = []
    dec = ecma119.decode(data)
    for k, d in dec.all_problems():
        vio.append({'key': k, 'detail': d})
    nrec = 0
    for vol in dec.volumes:
        nrec += sum(len(d.records) for d in vol.dirs.values())
        for (dpath, a, b) in vol.fields.get('sort_93', [])[:3]:
            cls = 'sep-vs-digit'
            vio.append({'key': '%ssort:bytewise-vs-9.3' % ('' if vol.kind == 'pvd' else vol.kind + ':'),
                        'detail': '%s: %r recorded before %r (bytewise order) but ECMA-119 9.3 orders them the other way' % (dpath, a, b)})
    counters['records_decoded'] = counters.get('records_decoded', 0) + nrec
    if len(data) != dec.space_size * 2048 and dec.pvd is not None:
        # hybrid images are padded; C04/C12 decide about padding
        pass
    if api_iso is not None and dec.pvd is not None:
        relocated = sess_model is not None and sess_model.rr_moved is not None
        pairs = [('iso', dec.pvd)]
        if dec.joliet is not None:
            pairs.append(('joliet', dec.joliet))
        for ns, vol in pairs:
            if ns == 'iso' and relocated:
                continue
            try:
                av = apiview.view(api_iso, ns)
            except Exception as e:
                vio.append({'key': 'api-diff:%s:walk-raises:%s' % (ns, type(e).__name__), 'detail': str(e)})
                continue
            dv = {p: n for p, n in vol.tree.items() if p != '/'}
            for p in sorted(set(av) - set(dv)):
                vio.append({'key': 'api-diff:%s:missing-in-image' % ns, 'detail': p})
            for p in sorted(set(dv) - set(av)):
                vio.append({'key': 'api-diff:%s:extra-in-image' % ns, 'detail': p})
            for p in set(av) & set(dv):
                a, n = av[p], dv[p]
                if a[0] != n.kind:
                    vio.append({'key': 'api-diff:%s:kind' % ns, 'detail': '%s api %s image %s' % (p, a[0], n.kind)})
                    continue
                if a[4] != n.hidden:
                    vio.append({'key': 'api-diff:%s:hidden' % ns, 'detail': p})
                if n.kind == 'file' and isinstance(a[2], (bytes, bytearray)):
                    counters['files_compared'] = counters.get('files_compared', 0) + 1
                    raw = ecma119.read_file(data, n)
                    got = a[2]
                    if len(raw) != len(got) or common.mask_bit(raw) != common.mask_bit(got):
                        # El Torito catalog pseudo-file and boot-info-table files are read
                        # through overlays; only bytes 8..63 may differ
                        vio.append({'key': 'api-diff:%s:bytes' % ns, 'detail': '%s: API returns %d bytes, image holds %d at extent %d' % (p, len(got), len(raw), n.extent)})
    return vio, dec


def check(cfg, ops, seed, counters=None):
    from harness.props import c01
    sess = driver.replay(cfg, ops, seed)
    img, oc = sess.write()
    if not oc.ok:
        return [{'key': 'write-raises:%s@%s' % (oc.exc_class, oc.exc_where), 'detail': oc.exc_msg}], None
    data = img.getvalue()
    s2, oc = sess.reopen(data)
    vio, dec = check_image(data, sess.model, counters, s2.iso if oc.ok else None)
    if not oc.ok:
        vio.append({'key': 'reopen-raises:%s@%s' % (oc.exc_class, oc.exc_where), 'detail': oc.exc_msg})
    s2.close()
    sess.close()
    return c01.dedup(vio), dec


def run_case(i, seed, tier):
    counters = {}
    g = Gen(seed * 1000003 + i)
    cfg = g.cfg(index=i + seed * 17)
    profile = ['grow', 'std', 'churn', 'grow', 'names', 'links'][i % 6]
    nops = g.rng.choice([5, 12, 25, 40]) if tier == 'quick' else g.rng.choice([10, 30, 60, 120])
    if i % 25 == 9:
        cfg, sops = common.special_layout(g, common.SPECIALS[(i // 25) % len(common.SPECIALS)])
        h = common.History(cfg, seed * 1000003 + i, 'std', max_size=5000)
        for op in sops:
            h.apply(op)
        h.extend(g.rng.choice([0, 3]))
        profile = 'special'
    else:
        h = common.History(cfg, seed * 1000003 + i, profile, max_size=5000)
        if i % 5 == 0:
            h.apply({'op': 'duplicate_pvd'})
        if i % 7 == 4:
            # edits continued on an object that opened the image mastered so far
            h.extend(nops // 2)
            counters['reopened_histories'] = 1 if h.reopen() else 0
            h.gen.profile = 'churn'
            h.extend(nops - nops // 2)
        else:
            h.extend(nops)
    ops = list(h.ops)
    h.sess.close()
    vio, dec = check(cfg, ops, seed * 1000003 + i, counters)
    nt = False
    if dec is not None and dec.pvd is not None:
        ndirs = len(dec.pvd.dirs)
        multi = any(d.data_length > 2048 for d in dec.pvd.dirs.values())
        deep = any(p.count('/') >= 2 for p in dec.pvd.dirs)
        nt = ndirs >= 3 and (multi or deep)
        counters['multi_sector_dirs'] = sum(1 for d in dec.pvd.dirs.values() if d.data_length > 2048)
        counters['ptable_gt_4k'] = 1 if dec.pvd.fields.get('ptable_size', 0) > 4096 else 0
    return {'verdict': 'violated' if vio else 'held',
            'violations': [dict(v, replay=common.replay_doc(PROPERTY, cfg, ops, seed * 1000003 + i)) for v in vio],
            'nontrivial': nt, 'shape': common.shape_of(cfg, ops),
            'sample': {'cfg': cfg.to_json(), 'profile': profile, 'n_ops': len(ops), 'ops': common.short_ops(ops, 6)},
            'counters': counters}


def replay(doc):
    cfg, ops, seed = common.doc_cfg_ops(doc)
    vio, _ = check(cfg, ops, seed)
    return vio
