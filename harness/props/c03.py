"""C03 Written images are structurally valid ISO9660 for an independent reader."""
from harness import apiview, driver, env
from harness.gen import Gen
from harness.indep import ecma119
from harness.props import common

PROPERTY = 'C03'
LEVEL = 'exploration'
RULE = ('images written after random accepted histories (all 256 configurations incl. duplicate PVDs, level-4 enhanced descriptors, '
        'XA, multi-sector directories, >4 KiB path tables via the "grow" profile) are decoded by harness/indep/ecma119.py (no pycdlib '
        'code): descriptor set/terminator, both-byte-order fields, record packing, ./.. targets and lengths, bytewise + 9.3 order, '
        'L/M path tables vs. the hierarchy; then tree, hidden flags and file bytes are compared with the API view of the reopened '
        'image. distinct = (configuration, op-kind sequence) hash; non-trivial = >= 3 directories and (a directory > 1 sector or '
        '> 1 path-table level)')
ASSUMPTIONS = ['harness/indep/ecma119.py is the trusted reader (validated on corrupted images by bin/selftest-decoders)', 'determinism shim']
REQUIRED_COUNTERS = {'records_decoded': 100, 'files_compared': 10}


def plan(tier):
    return 1500 if tier == "quick" else 30000


# second workload: the images the repository's own tests master (harness/suite.py), decoded by the
# independent reader without a model
SUITE_TIERS = ('quick', 'thorough')


def suite_oracle(data):
    return check_image(data)[0]


def key_of(k):
    """Map decoder problem keys to the C03 taxonomy (prefix per volume kept)."""
    return k


def check_image(data, sess_model=None, counters=None, api_iso=None):
    counters = counters if counters is not None else {}
    vio = []
    dec = ecma119.decode(data)
    for k, d in dec.all_problems():
        vio.append({'key': k, 'detail': d})
    nrec = 0
    for vol in dec.volumes:
        nrec += sum(len(d.records) for d in vol.dirs.values())
        for (dpath, a, b) in vol.fields.get('sort_93', [])[:3]:
            cls = 'sep-vs-digit'
            # (the enhanced descriptor describes the very same directory sectors as the PVD)
            vio.append({'key': '%ssort:bytewise-vs-9.3' % ('' if vol.kind in ('pvd', 'enhanced') else vol.kind + ':'),
                        'detail': '%s: %r recorded before %r (bytewise order) but ECMA-119 9.3 orders them the other way' % (dpath, a, b)})
    counters['records_decoded'] = counters.get('records_decoded', 0) + nrec
    if len(data) != dec.space_size * 2048 and dec.pvd is not None:
        # hybrid images are padded; C04/C12 decide about padding
        pass
    if api_iso is not None and dec.pvd is not None:
        relocated = sess_model is not None and sess_model.rr_moved is not None
        pairs = [('iso', dec.pvd)]
        if dec.joliet is not None:
            pairs.append(('joliet', dec.joliet))
        for ns, vol in pairs:
            if ns == 'iso' and relocated:
                continue
            try:
                av = apiview.view(api_iso, ns)
            except Exception as e:
                vio.append({'key': 'api-diff:%s:walk-raises:%s' % (ns, type(e).__name__), 'detail': str(e)})
                continue
            dv = {p: n for p, n in vol.tree.items() if p != '/'}
            for p in sorted(set(av) - set(dv)):
                vio.append({'key': 'api-diff:%s:missing-in-image' % ns, 'detail': p})
            for p in sorted(set(dv) - set(av)):
                vio.append({'key': 'api-diff:%s:extra-in-image' % ns, 'detail': p})
            for p in set(av) & set(dv):
                a, n = av[p], dv[p]
                if a[0] != n.kind:
                    vio.append({'key': 'api-diff:%s:kind' % ns, 'detail': '%s api %s image %s' % (p, a[0], n.kind)})
                    continue
                if a[4] != n.hidden:
                    vio.append({'key': 'api-diff:%s:hidden' % ns, 'detail': p})
                if n.kind == 'file' and isinstance(a[2], (bytes, bytearray)):
                    counters['files_compared'] = counters.get('files_compared', 0) + 1
                    raw = ecma119.read_file(data, n)
                    got = a[2]
                    if len(raw) != len(got) or common.mask_bit(raw) != common.mask_bit(got):
                        # El Torito catalog pseudo-file and boot-info-table files are read
                        # through overlays; only bytes 8..63 may differ
                        vio.append({'key': 'api-diff:%s:bytes' % ns, 'detail': '%s: API returns %d bytes, image holds %d at extent %d' % (p, len(got), len(raw), n.extent)})
    return vio, dec


PVD_TEXT = {'sys_ident': (8, 32), 'vol_ident': (40, 32), 'vol_set_ident': (190, 128), 'pub_ident_str': (318, 128),
            'preparer_ident_str': (446, 128), 'app_ident_str': (574, 128), 'copyright_file': (702, 37),
            'abstract_file': (739, 37), 'bibli_file': (776, 37)}


def check_vd_fields(dec, cfg, counters):
    """The volume-descriptor fields given to new(), as an independent reader finds them in every
    descriptor of the image (Joliet: the same strings in UCS-2BE)."""
    import calendar
    vio = []
    ex = cfg.extra
    if 'vol_expire_date' not in ex:
        # no expiry given: every descriptor records "not specified" (sixteen '0' digits, offset 0)
        for vol in dec.volumes:
            st = bytes(vol.vd.raw[847:864])
            if st != b'0' * 16 + b'\x00':
                vio.append({'key': 'vd:field:vol_expire_date:unspecified', 'detail': '%s descriptor at sector %d: no expiry date was given, recorded %r' % (vol.kind, vol.vd.sector, st)})
    if not ex:
        return vio
    counters['vd_field_images'] = counters.get('vd_field_images', 0) + 1
    for vol in dec.volumes:
        raw = vol.vd.raw
        ucs2 = vol.kind == 'joliet'
        for name, (off, width) in PVD_TEXT.items():
            if name not in ex:
                continue
            got = bytes(raw[off:off + width])
            if ucs2:
                want = ex[name].encode('utf-16-be')
                pad = b'\x00 '
                want = want + pad * ((width - len(want)) // 2)
                want = want[:width].ljust(width, b'\x00') if width % 2 else want
                if width % 2:
                    got, want = got[:width - 1], want[:width - 1]
            else:
                want = ex[name].encode('ascii').ljust(width, b' ')
            counters['vd_fields_compared'] = counters.get('vd_fields_compared', 0) + 1
            if got != want:
                vio.append({'key': 'vd:field:%s%s' % ('joliet:' if ucs2 else '', name), 'detail': '%s descriptor at sector %d: %s given %r, recorded %r' % (vol.kind, vol.vd.sector, name, ex[name][:40], got[:48])})
        if 'set_size' in ex and vol.fields.get('set_size') != ex['set_size']:
            vio.append({'key': 'vd:field:set_size', 'detail': '%s: given %d recorded %r' % (vol.kind, ex['set_size'], vol.fields.get('set_size'))})
        if 'seqnum' in ex:
            if vol.fields.get('seqnum') != ex['seqnum']:
                vio.append({'key': 'vd:field:seqnum', 'detail': '%s: given %d recorded %r' % (vol.kind, ex['seqnum'], vol.fields.get('seqnum'))})
            for dpath, d in vol.dirs.items():
                bad = [r for r in d.records if r.volseq[0] != ex['seqnum']]
                if bad:
                    vio.append({'key': 'dr:volseq', 'detail': '%s %s: record %r carries volume sequence number %d, the volume is number %d' % (vol.kind, dpath, bad[0].ident[:20], bad[0].volseq[0], ex['seqnum'])})
                    break
        if 'app_use' in ex:
            got = bytes(raw[883:883 + 512])
            want = ex['app_use'].encode('ascii')
            if got[:len(want)] != want:
                vio.append({'key': 'vd:field:app_use', 'detail': '%s: given %d bytes %r.., recorded %r..' % (vol.kind, len(want), want[:20], got[:20])})
        if 'vol_expire_date' in ex:
            st = bytes(raw[847:864])
            try:
                y, mo, dd, hh, mi, ss = int(st[0:4]), int(st[4:6]), int(st[6:8]), int(st[8:10]), int(st[10:12]), int(st[12:14])
                off = st[16] - 256 if st[16] > 127 else st[16]
                got = calendar.timegm((y, mo, dd, hh, mi, ss)) - off * 900 if y else None
            except ValueError:
                got = 'undecodable %r' % st
            if got != int(ex['vol_expire_date']) and not (got is None and ex['vol_expire_date'] == 0):
                vio.append({'key': 'vd:field:vol_expire_date', 'detail': '%s: given %d recorded %r (%r)' % (vol.kind, ex['vol_expire_date'], got, st)})
    return vio


def check(cfg, ops, seed, counters=None):
    from harness.props import c01
    sess = driver.replay(cfg, ops, seed)
    img, oc = sess.write()
    if not oc.ok:
        return [{'key': 'write-raises:%s@%s' % (oc.exc_class, oc.exc_where), 'detail': oc.exc_msg}], None
    data = img.getvalue()
    s2, oc = sess.reopen(data)
    vio, dec = check_image(data, sess.model, counters, s2.iso if oc.ok else None)
    if dec is not None and dec.pvd is not None:
        vio += check_vd_fields(dec, cfg, counters if counters is not None else {})
    if not oc.ok:
        vio.append({'key': 'reopen-raises:%s@%s' % (oc.exc_class, oc.exc_where), 'detail': oc.exc_msg})
    s2.close()
    sess.close()
    return c01.dedup(vio), dec


def run_case(i, seed, tier):
    if i >= plan(tier):
        from harness import suite
        return suite.run_slot(PROPERTY, i - plan(tier), suite_oracle)
    counters = {}
    g = Gen(seed * 1000003 + i)
    cfg = g.cfg(index=i + seed * 17)
    if i % 3 == 1:
        # volume-descriptor fields given to new(): identifiers at their field widths, set size and
        # sequence number, expiry date, application use
        cfg = cfg.with_extra(g.vd_extras(bool(cfg.joliet), cfg.xa))
    profile = ['grow', 'std', 'churn', 'grow', 'names', 'links'][i % 6]
    nops = g.rng.choice([5, 12, 25, 40]) if tier == 'quick' else g.rng.choice([10, 30, 60, 120])
    if i % 10 == 9:
        cfg, sops = common.special_layout(g, common.SPECIALS[(i // 10) % len(common.SPECIALS)])
        h = common.History(cfg, seed * 1000003 + i, 'std', max_size=5000)
        for op in sops:
            h.apply(op)
        h.extend(g.rng.choice([0, 3]))
        profile = 'special'
    else:
        h = common.History(cfg, seed * 1000003 + i, profile, max_size=5000)
        if i % 5 == 0:
            for _k in range(1 + (i // 5) % 2):
                h.apply({'op': 'duplicate_pvd'})
        if i % 7 == 4:
            # edits continued on an object that opened the image mastered so far
            h.extend(nops // 2)
            counters['reopened_histories'] = 1 if h.reopen(reuse=(i % 2 == 0)) else 0
            h.gen.profile = 'churn'
            h.extend(nops - nops // 2)
        else:
            h.extend(nops)
    ops = list(h.ops)
    h.sess.close()
    if i % 6 == 2:
        ops = [{'op': 'clock_tick', 'seconds': 1}] + ops      # the clock runs while editing and mastering
        counters['running_clock_cases'] = 1
    vio, dec = check(cfg, ops, seed * 1000003 + i, counters)
    nt = False
    if dec is not None and dec.pvd is not None:
        ndirs = len(dec.pvd.dirs)
        multi = any(d.data_length > 2048 for d in dec.pvd.dirs.values())
        deep = any(p.count('/') >= 2 for p in dec.pvd.dirs)
        nt = ndirs >= 3 and (multi or deep)
        counters['multi_sector_dirs'] = sum(1 for d in dec.pvd.dirs.values() if d.data_length > 2048)
        counters['ptable_gt_4k'] = 1 if dec.pvd.fields.get('ptable_size', 0) > 4096 else 0
    return {'verdict': 'violated' if vio else 'held',
            'violations': [dict(v, replay=common.replay_doc(PROPERTY, cfg, ops, seed * 1000003 + i)) for v in vio],
            'nontrivial': nt, 'shape': common.shape_of(cfg, ops),
            'sample': {'cfg': cfg.to_json(), 'profile': profile, 'n_ops': len(ops), 'ops': common.short_ops(ops, 6)},
            'counters': counters}


def replay(doc):
    if doc.get('suite_image'):
        from harness import suite
        return suite.replay(doc, suite_oracle)
    cfg, ops, seed = common.doc_cfg_ops(doc)
    vio, _ = check(cfg, ops, seed)
    return vio
