"""C08 Rock Ridge fidelity for an independent SUSP/RRIP reader."""
from harness import driver, env
from harness.gen import Gen
from harness.indep import ecma119, susp
from harness.model import Cfg, join
from harness.props import common

PROPERTY = 'C08'
LEVEL = 'exploration'
RULE = ('Rock Ridge images (versions 1.09/1.10/1.12 x XA x level x Joliet/UDF) from three workloads: (a) deterministic sweep of name '
        'lengths 1..260 and 277..1200 step 17 and of 30 symlink-target shapes, (b) random histories with long names, symlinks and removals '
        'that free and reuse continuation space (also after reopen), (c) trees up to depth 12 (relocation) with files, symlinks and '
        'removals inside relocated directories and a renamed relocation directory. Every image is read by harness/indep/susp.py: '
        'well-formedness of every system-use and continuation area (lengths add up, CE inside its sector, no overlap, CL/PL/RE/SP/ER), '
        'and name, type+mode, link-count convention, symlink target and the logical tree are compared with the model. distinct = '
        '(configuration, workload, op-kind sequence); non-trivial = image has a continuation area and (a symlink with > 1 SL entry or a '
        'relocated directory)')
ASSUMPTIONS = ['harness/indep/susp.py and ecma119.py are the trusted readers',
               'link-count oracle = RRIP convention the unchanged tree follows: 2 + physically recorded sub-directory entries (CL placeholders included)']
REQUIRED_COUNTERS = {'rr_entries_checked': 200, 'ce_areas_seen': 20}

TARGETS = ['a', '/', '.', '..', '/a', 'a/b', '../a', './a', 'a/.', 'a/..', '/a/./b/../c', 'x' * 250, 'x' * 255, 'x' * 256, 'x' * 300, 'x' * 600,
           '/'.join(['ab'] * 40), '/'.join(['a'] * 34), '/'.join(['a'] * 50), '/'.join(['abcdefgh'] * 25), '/' + '/'.join(['q' * 100] * 10),
           'a/' + 'b' * 248 + '/c', 'a/' + 'b' * 249 + '/c', 'a/' + 'b' * 250 + '/c', '../../../../../../x', '/usr/lib/x86_64-linux-gnu/libfoo.so.1.2.3',
           'trailing/', 'a//b', 'é' * 100, '日本語/ファイル']


def plan(tier):
    return 700 if tier == 'quick' else 12000


# second workload: the Rock Ridge images the repository's own tests master (harness/suite.py)
SUITE_TIERS = ('quick', 'thorough')


def suite_oracle(data):
    from harness.indep import ecma119 as _e, susp as _s
    dec = _e.decode(data)
    if dec.pvd is None:
        return []
    rr = _s.decode(data, dec)
    return [{'key': k, 'detail': d} for k, d in rr.problems] if rr.present else []


def expected_tree(model):
    mv = model.view('rr')
    out = {}
    for p, e in mv.items():
        out[p] = e
    if model.relocation_active():
        model._update_reloc()
        name = model.reloc_name[1]
        out['/' + name] = ('dir', None, None, None, False)
    return out


def check_image(data, model, counters):
    vio = []
    iso = ecma119.decode(data)
    rr = susp.decode(data, iso)
    if not rr.present:
        return [{'key': 'susp:not-present', 'detail': 'no SP entry in the root "." record'}], rr
    if rr.version != model.cfg.rr and (model.generation == 0 or '1.12' in (rr.version, model.cfg.rr)):
        vio.append({'key': 'version', 'detail': 'image decodes as Rock Ridge %s, requested %s' % (rr.version, model.cfg.rr)})
    for k, d in rr.problems:
        vio.append({'key': k, 'detail': d})
    counters['rr_entries_checked'] = counters.get('rr_entries_checked', 0) + len(rr.entries)
    counters['ce_areas_seen'] = counters.get('ce_areas_seen', 0) + sum(len(e.ce_areas) for e in rr.entries.values())
    counters['relocated_dirs'] = counters.get('relocated_dirs', 0) + len(rr.holder)
    # documented placement: deep directories are relocated into one relocation directory in
    # the root, and nothing in the ISO9660 hierarchy lies deeper than eight levels
    parents = {p.rsplit('/', 1)[0] for p in rr.holder}
    for p in sorted(rr.holder):
        if p.count('/') != 2:
            vio.append({'key': 'reloc:placement', 'detail': 'relocated directory recorded at %s, not directly in a relocation directory of the root' % p[:120]})
    if len(parents) > 1:
        vio.append({'key': 'reloc:placement', 'detail': 'relocated directories live in several directories: %s' % sorted(parents)[:4]})
    if model.cfg.level < 4:
        for p in iso.pvd.dirs:
            if p != '/' and p.count('/') > 7:
                vio.append({'key': 'reloc:depth', 'detail': 'directory at ISO9660 depth %d: %s' % (p.count('/') + 1, p[:120])})
                break
    exp = expected_tree(model)
    got = {p: n for p, n in rr.logical.items() if p != '/'}
    for p in sorted(set(exp) - set(got)):
        vio.append({'key': 'tree:missing', 'detail': '%s (%s) not recovered by the independent reader' % (p[:120], exp[p][0])})
    for p in sorted(set(got) - set(exp)):
        vio.append({'key': 'tree:extra', 'detail': '%s (%s) recovered but never built' % (p[:120], got[p].kind)})
    for p in set(exp) & set(got):
        e, n = exp[p], got[p]
        if e[0] != n.kind:
            vio.append({'key': 'type', 'detail': '%s built as %s, read as %s' % (p[:100], e[0], n.kind)})
            continue
        if e[0] == 'symlink':
            tgt = n.target.decode('utf-8', 'surrogateescape') if isinstance(n.target, bytes) else n.target
            if tgt != e[3]:
                cls = 'long-component' if any(len(c) > 200 for c in e[3].split('/')) else 'many-components' if e[3].count('/') > 20 else 'plain'
                vio.append({'key': 'sl:target:%s' % cls, 'detail': '%s target given %r (%d bytes) read %r (%d bytes)' % (p[:60], e[3][:60], len(e[3]), (tgt or '')[:60], len(tgt or ''))})
        if e[4] != n.hidden:
            vio.append({'key': 'hidden', 'detail': p[:100]})
        # mode
        node = model.ns['iso'].get(model.iso_path_of_rr(p)) if p in model.view('rr') else None
        if node is not None and node.mode is not None and n.mode is not None:
            if n.mode != node.mode:
                vio.append({'key': 'px:mode', 'detail': '%s given %o read %o' % (p[:80], node.mode, n.mode)})
        elif node is not None and node.mode is None and n.mode is not None:
            default = {'dir': 0o040555, 'file': 0o100444}.get(e[0])
            if default is not None and n.mode != default:
                vio.append({'key': 'px:mode-default', 'detail': '%s read %o expected default %o' % (p[:80], n.mode, default)})
        if e[0] == 'file' and n.nlink is not None and n.nlink < 1:
            vio.append({'key': 'px:nlink:file', 'detail': '%s nlink %d' % (p[:80], n.nlink)})
    return vio, rr


def run_ops(cfg, ops, seed, counters, reopen_ops=None):
    from harness.props import c01
    sess = driver.replay(cfg, ops, seed)
    img, oc = sess.write()
    if not oc.ok:
        sess.close()
        return [{'key': 'write-raises:%s@%s' % (oc.exc_class, oc.exc_where), 'detail': oc.exc_msg}], None
    vio, rr = check_image(img.getvalue(), sess.model, counters)
    if reopen_ops:
        s2, oc = sess.reopen(img.getvalue())
        if not oc.ok:
            vio.append({'key': 'reopen-raises:%s@%s' % (oc.exc_class, oc.exc_where), 'detail': oc.exc_msg})
        else:
            for op in reopen_ops:
                s2.step(op)
            img2, oc = s2.write()
            if not oc.ok:
                vio.append({'key': 'write-raises:%s@%s' % (oc.exc_class, oc.exc_where), 'detail': 'after reopen: %s' % oc.exc_msg})
            else:
                v2, rr = check_image(img2.getvalue(), s2.model, counters)
                for v in v2:
                    v['detail'] = 'after reopen+edits: ' + v['detail']
                vio += v2
            s2.close()
    sess.close()
    return c01.dedup(vio), rr


def sweep_case(i, cfg):
    """Deterministic name-length / target-shape sweep: 12 entries per case."""
    ops = []
    lengths = list(range(1, 261)) + list(range(277, 1201, 17))
    base = (i * 12) % len(lengths)
    for k in range(8):
        n = lengths[(base + k) % len(lengths)]
        name = ('n%04d_' % n + 'x' * n)[:n] if n >= 6 else 'abcdef'[:n] + ''
        name = name if name not in ('.', '..') else 'x' + name
        if k > 0 and name in [o.get('rr_name') for o in ops]:
            name = name[:-1] + 'y' if len(name) > 1 else 'z%d' % k
        ops.append({'op': 'add_fp', 'cid': 100 + k, 'length': 10 + k, 'iso_path': '/F%03d.;1' % k, 'rr_name': name})
    for k in range(4):
        t = TARGETS[(i * 4 + k) % len(TARGETS)]
        ops.append({'op': 'add_symlink', 'symlink_path': '/S%03d.;1' % k, 'rr_symlink_name': 'sym%d' % k, 'rr_path': t})
    return ops


def deep_history(g, cfg, seed):
    h = common.History(cfg, seed, 'std', max_size=3000, max_depth=11)
    r = g.rng
    if r.random() < 0.5:
        # (sometimes a Rock Ridge name long enough to need a continuation area of its own)
        h.apply({'op': 'set_relocated_name', 'name': 'MOVED', 'rr_name': 'moved.dir' if r.random() < 0.6 else 'moved-' + 'm' * r.choice([150, 200, 240])})
        if h.sess.ops[-1][1].ok:
            h.sess.model._update_reloc()
    p = ''
    depth = r.choice([8, 9, 10, 12])
    for d in range(1, depth + 1):
        p = join(p or '/', g.iso_dir_name(cfg.level)) if p else '/' + g.iso_dir_name(cfg.level)
        op = {'op': 'add_directory', 'iso_path': p, 'rr_name': g.rr_name(long_bias=0.2 if d >= 8 else 0.05)}
        if r.random() < 0.5:
            op['file_mode'] = r.choice([0o040555, 0o040755])
        h.apply(op)
        if r.random() < 0.6:
            h.apply({'op': 'add_fp', 'cid': g.new_cid(), 'length': g.size(), 'iso_path': join(p, g.iso_file_name(cfg.level)), 'rr_name': g.rr_name()})
        if d == 8 and r.random() < 0.5:
            # a directory with the same names at the relocation depth under another parent:
            # two relocated directories that only their child links tell apart
            par7 = p.rsplit('/', 1)[0]
            par6 = par7.rsplit('/', 1)[0] or '/'
            alt7 = join(par6, g.iso_dir_name(cfg.level))
            if h.apply({'op': 'add_directory', 'iso_path': alt7, 'rr_name': g.rr_name()}).ok:
                twin = join(alt7, p.rsplit('/', 1)[1])
                if h.apply({'op': 'add_directory', 'iso_path': twin, 'rr_name': op['rr_name']}).ok:
                    h.apply({'op': 'add_fp', 'cid': g.new_cid(), 'length': 11, 'iso_path': join(twin, g.iso_file_name(cfg.level)), 'rr_name': g.rr_name()})
        if d >= 7 and r.random() < 0.5:
            # sibling at the relocation depth
            h.apply({'op': 'add_directory', 'iso_path': join(p.rsplit('/', 1)[0] or '/', g.iso_dir_name(cfg.level)), 'rr_name': g.rr_name(long_bias=0.3)})
    h.gen.max_depth = 11
    h.gen.uniq = g.uniq + 100
    h.gen.next_cid = g.next_cid + 100
    h.extend(r.choice([0, 5, 12]))
    # remove some leaf directories (possibly relocated ones) and re-add
    for _ in range(r.choice([0, 1, 3])):
        op = h.gen.op_rm_directory(h.sess.model)
        if op:
            h.apply(op)
    if r.random() < 0.3:
        # take every relocated directory away again (deepest first): the relocation directory
        # goes with the last one, and with it whatever it had reserved
        for _ in range(40):
            m_ = h.sess.model
            leaves = [d for d in m_.dirs('iso') if m_.depth(d) >= 8 and not m_.children('iso', d)]
            files_ = [p for p, n in m_.ns['iso'].items() if n.kind != 'dir' and m_.depth(p) >= 9]
            if files_:
                h.apply({'op': 'rm_hard_link' if m_.ns['iso'][files_[0]].kind == 'file' else 'rm_file', 'iso_path': files_[0]})
            elif leaves:
                h.apply({'op': 'rm_directory', 'iso_path': max(leaves, key=m_.depth)})
            else:
                break
        if r.random() < 0.7:
            # ... and relocate a directory again on the same object: the relocation directory comes
            # back, under the names that were chosen for it
            m_ = h.sess.model
            d7 = sorted(d for d in m_.dirs('iso') if m_.depth(d) == 7)
            if d7:
                op = {'op': 'add_directory', 'iso_path': join(r.choice(d7), g.iso_dir_name(cfg.level)), 'rr_name': g.rr_name()}
                if h.apply(op).ok and r.random() < 0.5:
                    h.apply({'op': 'add_fp', 'cid': g.new_cid() + 500, 'length': 13, 'iso_path': join(op['iso_path'], g.iso_file_name(cfg.level)), 'rr_name': g.rr_name()})
    return h


def gen_reopen_ops(h, cs, g, deep):
    """Edits generated against the model of the image after it was written and opened again."""
    img, oc = h.sess.write()
    if not oc.ok:
        return None
    s2, oc2 = h.sess.reopen(img.getvalue())
    if not oc2.ok:
        s2.close()
        return None
    g2 = Gen(cs + 5, 'churn')
    g2.uniq = h.gen.uniq + 1000
    g2.next_cid = h.gen.next_cid + 1000
    out = []
    if deep:
        g2.max_depth = 11
        m = s2.model
        # more directories at and below the relocation depth, next to the ones parsed from the image
        d7 = [d for d in m.dirs('iso') if m.depth(d) == 7]
        for par in d7[:2]:
            for _ in range(g.rng.choice([1, 2])):
                op = {'op': 'add_directory', 'iso_path': join(par, g2.iso_dir_name(m.cfg.level)), 'rr_name': g2.rr_name(long_bias=0.3)}
                if s2.step(op).ok:
                    out.append(op)
                    if g.rng.random() < 0.5:
                        op2 = {'op': 'add_fp', 'cid': g2.new_cid(), 'length': 9, 'iso_path': join(op['iso_path'], g2.iso_file_name(m.cfg.level)), 'rr_name': g2.rr_name()}
                        if s2.step(op2).ok:
                            out.append(op2)
    for _ in range(g.rng.choice([4, 10, 20])):
        op = g2.gen_op(s2.model)
        if s2.step(op).ok:
            out.append(op)
        else:
            break
    s2.close()
    return out


def run_case(i, seed, tier):
    if i >= plan(tier):
        from harness import suite
        return suite.run_slot(PROPERTY, i - plan(tier), suite_oracle)
    counters = {}
    cs = seed * 1000003 + i
    g = Gen(cs, 'names')
    rr_cfgs = lambda c: c.rr is not None
    kind = ['sweep', 'history', 'deep', 'history', 'deep-reopen', 'sweep', 'history-reopen'][i % 7]
    if i % 35 == 4:
        kind = 'ce-gap'
    reopen_ops = None
    if kind == 'ce-gap':
        # free a continuation area in the middle of a block, then add an entry whose area is
        # the size of the hole -2..+2 (allocator boundary)
        cfg = Cfg(level=g.rng.choice([1, 3]), rr=g.rng.choice(['1.09', '1.10', '1.12']), xa=g.rng.random() < 0.3)
        base = g.rng.choice([200, 215, 230, 260])
        ops = []
        for k in range(4):
            ops.append({'op': 'add_fp', 'cid': 300 + k, 'length': 5, 'iso_path': '/G%d.;1' % k, 'rr_name': ('g%d-' % k) + 'x' * (base + 7 * k)})
        ops.append({'op': 'rm_file', 'iso_path': '/G%d.;1' % g.rng.choice([1, 2])})
        removed_len = len(ops[int(ops[-1]['iso_path'][2])]['rr_name'])
        delta = [-2, -1, 0, 1, 2][(i // 35 + seed) % 5]
        ops.append({'op': 'add_fp', 'cid': 310, 'length': 5, 'iso_path': '/NEW.;1', 'rr_name': 'n' * (removed_len + delta)})
        if g.rng.random() < 0.5:
            ops.append({'op': 'add_fp', 'cid': 311, 'length': 5, 'iso_path': '/NEW2.;1', 'rr_name': 'm' * (removed_len - 30)})
    elif kind == 'sweep':
        cfg = Cfg(level=[1, 3, 4][(i // 7) % 3], rr=['1.09', '1.10', '1.12'][(i // 21) % 3], xa=bool((i // 63) % 2), joliet=None, udf=False)
        ops = sweep_case(i // 7 + seed * 31, cfg)
        # refusals (e.g. continuation too long) are dropped by replaying through History
        h = common.History(cfg, cs, 'names')
        for op in ops:
            h.apply(op)
        ops = list(h.ops)
        h.sess.close()
    elif kind.startswith('history'):
        cfg = g.cfg(index=i + seed * 23, require=rr_cfgs)
        h = common.History(cfg, cs, ['names', 'churn'][i % 2], max_size=3000)
        h.extend(g.rng.choice([8, 20, 40]))
        ops = list(h.ops)
        if kind == 'history-reopen':
            reopen_ops = gen_reopen_ops(h, cs, g, False)
        h.sess.close()
    else:
        cfg = g.cfg(index=i + seed * 29, require=lambda c: c.rr is not None and c.level < 4)
        h = deep_history(g, cfg, cs)
        ops = list(h.ops)
        if kind == 'deep-reopen':
            reopen_ops = gen_reopen_ops(h, cs, g, True)
        h.sess.close()
    vio, rr = run_ops(cfg, ops, cs, counters, reopen_ops)
    nt = False
    if rr is not None and rr.present:
        has_ce = any(e.ce_areas for e in rr.entries.values())
        multi_sl = any(len(e.sl) > 1 for e in rr.entries.values())
        nt = has_ce and (multi_sl or bool(rr.holder))
    return {'verdict': 'violated' if vio else 'held',
            'violations': [dict(v, replay=common.replay_doc(PROPERTY, cfg, ops, cs, ops2=driver.ops_to_json(reopen_ops or []))) for v in vio],
            'nontrivial': nt, 'shape': common.shape_of(cfg, ops, kind),
            'sample': {'cfg': cfg.to_json(), 'workload': kind, 'n_ops': len(ops), 'ops': common.short_ops(ops, 5)}, 'counters': counters}


def replay(doc):
    if doc.get('suite_image'):
        from harness import suite
        return suite.replay(doc, suite_oracle)
    cfg, ops, seed = common.doc_cfg_ops(doc)
    ops2 = driver.ops_from_json(doc.get('ops2') or [])
    vio, _ = run_ops(cfg, ops, seed, {}, ops2 or None)
    return vio
