"""C16 Reading files: exact bytes, stream semantics, no interference."""
import contextlib
import io
import os
import random

from harness import blobs, driver, env
from harness.gen import Gen
from harness.model import Cfg
from harness.props import common

PROPERTY = 'C16'
LEVEL = 'exploration'
RULE = ('random programs over 1-3 simultaneously open PyCdlibIO streams ({read(n), read(), readall, readinto(k), seek(o,0|1|2), tell}) '
        'differentially against io.BytesIO(content), with get_file_from_iso_fp (block sizes 1,7,2047,2048,2049,8192,>size), '
        'list_children, walk, get_record and write_fp interleaved on the same object; files of 0..3 sectors on an opened image, '
        'added-but-unwritten files, and both mixed. distinct = (mode, op-kind sequence) hash; non-trivial = >= 2 streams or a foreign '
        'operation between two reads of one stream')
ASSUMPTIONS = ['io.BytesIO is the reference stream; a seek to a negative position may either raise or clamp (both are stream-like)']
REQUIRED_COUNTERS = {'stream_ops_compared': 500, 'extractions_compared': 50}

SIZES = [0, 1, 2, 9, 40, 63, 64, 100, 2047, 2048, 2049, 4095, 4096, 4097, 5000, 6143, 6144, 6145]
BLOCKS = [1, 7, 512, 2047, 2048, 2049, 8192, 100000]


def plan(tier):
    return 1500 if tier == 'quick' else 60000


def build(rng, seed, mode):
    cfg = Cfg(level=rng.choice([1, 3, 4]), joliet=rng.choice([None, 3]), rr=rng.choice([None, '1.09', '1.12']), udf=rng.random() < 0.4)
    env.reset(seed)
    s = driver.Session(cfg, seed).new()
    g = Gen(seed, 'grow')
    files = {}   # name -> (keys dict, content)
    nfiles = rng.randint(2, 6)

    def add(sess, tag):
        for _ in range(nfiles):
            op = g.op_add_fp(sess.model, length=rng.choice(SIZES), spread='all')
            out = sess.step(op)
            if out.ok:
                keys = {}
                if op.get('iso_path'):
                    keys['iso_path'] = op['iso_path']
                    if cfg.rr:
                        keys['rr_path'] = sess.model.rr_path_of(op['iso_path'])
                if op.get('joliet_path'):
                    keys['joliet_path'] = op['joliet_path']
                if op.get('udf_path'):
                    keys['udf_path'] = op['udf_path']
                files['%s%d' % (tag, op['cid'])] = (keys, blobs.blob(op['cid'], op['length']))
    add(s, 'a')
    if mode == 'reused':
        # the object first holds image A (same paths, other contents), every file is read once
        # through every name, then the object is closed and opens image B
        import io as _io
        opsA = [op for op in s.accepted if op['op'] == 'add_fp']
        for keys, _c in files.values():
            for k, pth in keys.items():
                try:
                    s.iso.get_file_from_iso_fp(_io.BytesIO(), **{k: pth})
                except Exception:
                    pass
        s.write()
        env.reset(seed + 1)
        sb = driver.Session(cfg, seed + 1).new()
        files.clear()
        for op in opsA:
            opb = dict(op, cid=op['cid'] + 50000, length=rng.choice(SIZES))
            opb.pop('data', None)
            if sb.step(opb).ok:
                keys = {k: opb[k] for k in ('iso_path', 'joliet_path', 'udf_path') if opb.get(k)}
                if cfg.rr and opb.get('iso_path'):
                    keys['rr_path'] = sb.model.rr_path_of(opb['iso_path'])
                files['r%d' % opb['cid']] = (keys, blobs.blob(opb['cid'], opb['length']))
        img, oc = sb.write()
        if not oc.ok:
            return None, None, 'write failed: ' + oc.summary()
        m = sb.model.clone()
        m.reopened()
        sb.close()
        s2 = driver.Session(cfg, seed, model=m, reuse=s)
        try:
            s2.open_bytes(img.getvalue())
        except Exception as e:
            return None, None, 'open in the reused object failed: %s: %s' % (type(e).__name__, e)
        return s2, files, None
    if mode in ('opened', 'mixed'):
        img, oc = s.write()
        if not oc.ok:
            return None, None, 'write failed: ' + oc.summary()
        s2, oc = s.reopen(img.getvalue())
        if not oc.ok:
            return None, None, 'reopen failed: ' + oc.summary()
        s.close()
        s = s2
        if mode == 'mixed':
            add(s, 'b')
            # directories are laid out before all file data: a new one moves every file of the image
            for _ in range(rng.choice([0, 1, 1, 3])):
                s.step(g.op_add_directory(s.model))
    return s, files, None


class Twin:
    def __init__(self, pyio, content, name):
        self.py = pyio
        self.ref = io.BytesIO(content)
        self.name = name
        self.size = len(content)


def stream_op(rng, tw):
    """Returns (desc, callable(stream) -> result) applied to both."""
    k = rng.choice(['read_n', 'read_n', 'read_n', 'read_all', 'readall', 'readinto', 'seek0', 'seek1', 'seek2', 'tell'])
    if k == 'read_n':
        n = rng.choice([0, 1, 2, 7, 100, 2047, 2048, 2049, 5000, tw.size, tw.size + 10])
        return 'read(%d)' % n, 'read', lambda f: f.read(n)
    if k == 'read_all':
        arg = rng.choice([None, -1])
        return 'read(%r)' % arg, 'read', lambda f: f.read(arg)
    if k == 'readall':
        return 'readall()', 'readall', lambda f: f.readall() if hasattr(f, 'readall') else f.read()
    if k == 'readinto':
        n = rng.choice([0, 1, 16, 2048, 3000, 10000])
        # the buffer may have items wider than a byte: the count is in bytes all the same
        typ = rng.choice(['bytearray', 'bytearray', 'bytearray', 'H', 'I', 'd', 'mv2'])
        def ri(f):
            import array
            if typ == 'bytearray':
                b = bytearray(b'\xee' * n)
            elif typ == 'mv2':
                b = memoryview(bytearray(b'\xee' * (n - n % 4))).cast('B', (max(1, (n - n % 4) // 4), 4)) if n >= 4 else bytearray(b'\xee' * n)
            else:
                b = array.array(typ, b'\xee' * (n - n % array.array(typ).itemsize))
            r = f.readinto(b)
            return (r, bytes(b))
        return 'readinto(%s %d)' % (typ, n), 'readinto', ri
    if k == 'seek0':
        o = rng.choice([0, 1, tw.size // 2, max(0, tw.size - 1), tw.size, tw.size + 5, 2048, 2047])
        return 'seek(%d,0)' % o, 'seek', lambda f: f.seek(o, 0)
    if k == 'seek1':
        o = rng.choice([0, 1, -1, 10, -10, 2048, -2048, tw.size])
        return 'seek(%d,1)' % o, 'seek', lambda f: f.seek(o, 1)
    if k == 'seek2':
        o = rng.choice([0, -1, -10, -tw.size, 5, -(tw.size // 2)])
        return 'seek(%d,2)' % o, 'seek', lambda f: f.seek(o, 2)
    return 'tell()', 'tell', lambda f: f.tell()


def run_program(seed, mode, counters, program=None, record=None):
    rng = random.Random(seed)
    s, files, err = build(rng, seed, mode)
    if s is None:
        return [{'key': 'setup-failed', 'detail': err}], []
    vio = []
    trace = []
    if mode == 'pending' and seed % 5 == 0:
        # a pending boot file with a boot info table: what a stream returns must be what an
        # extraction returns (the file "as read back" carries the table)
        cands = [(n_, k_) for n_, (k_, c_) in sorted(files.items()) if len(c_) >= (65 if seed % 10 else 9) and 'iso_path' in k_]
        if cands:
            n_, k_ = cands[0]
            out = s.step({'op': 'add_eltorito', 'bootfile_path': k_['iso_path'], 'boot_info_table': True})
            if out.ok:
                counters['bit_stream_checks'] = counters.get('bit_stream_checks', 0) + 1
                try:
                    ex = io.BytesIO()
                    s.iso.get_file_from_iso_fp(ex, iso_path=k_['iso_path'])
                    with s.iso.open_file_from_iso(iso_path=k_['iso_path']) as f_:
                        st = f_.read()
                    # the extraction is the same under every name of the file, and as long as the file
                    for kk_, pp_ in sorted(k_.items()):
                        ex2 = io.BytesIO()
                        s.iso.get_file_from_iso_fp(ex2, **{kk_: pp_})
                        counters['bit_extractions_compared'] = counters.get('bit_extractions_compared', 0) + 1
                        if ex2.getvalue() != ex.getvalue() or len(ex2.getvalue()) != len(files[n_][1]):
                            vio.append({'key': 'extract:boot-info-table:names-disagree', 'detail': '%s=%s gives %d bytes, iso_path gives %d, the file has %d' % (kk_, pp_, len(ex2.getvalue()), len(ex.getvalue()), len(files[n_][1]))})
                    if st != ex.getvalue():
                        vio.append({'key': 'stream:boot-info-table:differs-from-extraction', 'detail': '%s: open_file_from_iso().read() and get_file_from_iso_fp() disagree in bytes %s' % (k_['iso_path'], [i_ for i_ in range(min(len(st), len(ex.getvalue()))) if st[i_] != ex.getvalue()[i_]][:3])})
                except Exception as e_:
                    vio.append({'key': 'stream:boot-info-table:raises:%s' % type(e_).__name__, 'detail': str(e_)})
                del files[n_]      # its content is no longer the bytes that were added
    names = sorted(files)
    if not names:
        # the library refused every file of this case (nothing to read): a trivial case
        s.close()
        return vio, []
    last_foreign = {}
    with contextlib.ExitStack() as stack:
        twins = []
        for _ in range(rng.randint(1, 3)):
            name = rng.choice(names)
            keys, content = files[name]
            k = rng.choice(sorted(keys))
            try:
                f = stack.enter_context(s.iso.open_file_from_iso(**{k: keys[k]}))
            except Exception as e:
                vio.append({'key': 'open_file_from_iso-raises:%s' % type(e).__name__, 'detail': '%s=%s: %s' % (k, keys[k], e)})
                continue
            twins.append(Twin(f, content, '%s via %s' % (name, k)))
            trace.append('open %s (%d bytes) via %s' % (name, len(content), k))
        if not twins:
            s.close()
            return vio, trace
        since = {id(t): 'none' for t in twins}
        for step in range(rng.randint(5, 40)):
            x = rng.random()
            if 0.66 <= x < 0.7 and len(twins) < 5:
                # a stream opened in the middle of the program (after queries, extractions or a
                # write may have recomputed the layout)
                name = rng.choice(names)
                keys, content = files[name]
                k = rng.choice(sorted(keys))
                try:
                    f = stack.enter_context(s.iso.open_file_from_iso(**{k: keys[k]}))
                except Exception as e:
                    vio.append({'key': 'open_file_from_iso-raises:%s' % type(e).__name__, 'detail': '%s=%s: %s' % (k, keys[k], e)})
                    break
                tw_new = Twin(f, content, '%s via %s (opened at step %d)' % (name, k, step))
                twins.append(tw_new)
                since[id(tw_new)] = 'late-open'
                trace.append('open %s (%d bytes) via %s' % (name, len(content), k))
                counters['late_opens'] = counters.get('late_opens', 0) + 1
                continue
            if x < 0.7:
                tw = rng.choice(twins)
                desc, kind, fn = stream_op(rng, tw)
                trace.append('%s.%s' % (tw.name, desc))
                # reference
                ref_exc = None
                try:
                    before = tw.ref.tell()
                    r_ref = fn(tw.ref)
                except (ValueError, OSError) as e:
                    ref_exc = e
                    r_ref = None
                py_exc = None
                try:
                    r_py = fn(tw.py)
                except Exception as e:
                    py_exc = e
                    r_py = None
                counters['stream_ops_compared'] = counters.get('stream_ops_compared', 0) + 1
                after = since[id(tw)]
                if kind == 'seek' and (ref_exc is not None or (r_ref == 0 and desc.startswith('seek(-')) or (desc.endswith(',1)') or desc.endswith(',2)')) and before_target_negative(desc, before, tw.size)):
                    # seek before the start: raise (position unchanged) or clamp to 0 are both acceptable
                    if py_exc is not None:
                        if type(py_exc).__name__ != 'PyCdlibInvalidInput':
                            vio.append({'key': 'seek:wrong-exception:%s' % type(py_exc).__name__, 'detail': '%s: %s' % (desc, py_exc)})
                        tw.ref.seek(before)
                    else:
                        tw.ref.seek(r_py if isinstance(r_py, int) and r_py >= 0 else 0)
                    continue
                if py_exc is not None and ref_exc is None:
                    vio.append({'key': '%s:raises:%s:after=%s' % (kind, type(py_exc).__name__, after), 'detail': '%s on %s: %s' % (desc, tw.name, py_exc)})
                    break
                if py_exc is None and ref_exc is not None:
                    vio.append({'key': '%s:accepts-invalid' % kind, 'detail': '%s on %s: BytesIO raises %s' % (desc, tw.name, ref_exc)})
                    break
                if r_py != r_ref:
                    what = 'value'
                    if kind in ('read', 'readall', 'readinto'):
                        a = r_py[1] if kind == 'readinto' else r_py
                        b = r_ref[1] if kind == 'readinto' else r_ref
                        if isinstance(a, (bytes, bytearray)) and len(a) > len(b):
                            what = 'beyond-eof'
                        elif isinstance(a, (bytes, bytearray)) and len(a) < len(b):
                            what = 'short'
                        elif kind == 'readinto' and r_py[0] != r_ref[0]:
                            what = 'count'
                    vio.append({'key': '%s:%s:after=%s' % (kind, what, after), 'detail': '%s on %s (pos %d): got %s expected %s' % (desc, tw.name, before, summarize(r_py), summarize(r_ref))})
                    break
                # position check
                try:
                    p_py, p_ref = tw.py.tell(), tw.ref.tell()
                except Exception as e:
                    vio.append({'key': 'tell:raises:%s' % type(e).__name__, 'detail': str(e)})
                    break
                if p_py != p_ref:
                    vio.append({'key': 'tell:%s:after=%s' % (kind, after), 'detail': 'after %s on %s: tell() %d, expected %d' % (desc, tw.name, p_py, p_ref)})
                    break
                since[id(tw)] = 'none'
                for t in twins:
                    if t is not tw and kind in ('read', 'readall', 'readinto', 'seek'):
                        if since[id(t)] == 'none':
                            since[id(t)] = 'other-stream'
            else:
                kind = rng.choice(['extract', 'extract', 'list', 'walk', 'record', 'write'])
                name = rng.choice(names)
                keys, content = files[name]
                k = rng.choice(sorted(keys))
                try:
                    if kind == 'extract':
                        bs = rng.choice(BLOCKS)
                        buf = io.BytesIO()
                        trace.append('get_file_from_iso_fp(%s, blocksize=%d)' % (name, bs))
                        s.iso.get_file_from_iso_fp(buf, blocksize=bs, **{k: keys[k]})
                        counters['extractions_compared'] = counters.get('extractions_compared', 0) + 1
                        if buf.getvalue() != content:
                            vio.append({'key': 'extract:bytes:blocksize=%s' % ('1' if bs == 1 else 'small' if bs < 2048 else 'sector' if bs == 2048 else 'large'),
                                        'detail': '%s via %s blocksize %d: %d bytes, expected %d' % (name, k, bs, len(buf.getvalue()), len(content))})
                            break
                    elif kind == 'list':
                        trace.append('list_children')
                        list(s.iso.list_children(iso_path='/'))
                    elif kind == 'walk':
                        trace.append('walk')
                        list(s.iso.walk(iso_path='/'))
                    elif kind == 'record':
                        trace.append('get_record')
                        s.iso.get_record(**{k: keys[k]})
                    else:
                        trace.append('write_fp')
                        s.iso.write_fp(io.BytesIO())
                except Exception as e:
                    vio.append({'key': 'foreign:%s-raises:%s' % (kind, type(e).__name__), 'detail': str(e)})
                    break
                for t in twins:
                    since[id(t)] = kind
    s.close()
    return vio, trace


def before_target_negative(desc, before, size):
    try:
        o = int(desc[5:desc.index(',')])
    except ValueError:
        return False
    if desc.endswith(',1)'):
        return before + o < 0
    if desc.endswith(',2)'):
        return size + o < 0
    return o < 0


def summarize(r):
    if isinstance(r, (bytes, bytearray)):
        return '%d bytes %s..' % (len(r), bytes(r[:8]).hex())
    if isinstance(r, tuple):
        return '(%r, %s)' % (r[0], summarize(r[1]))
    return repr(r)


class MarkerSink(io.RawIOBase):
    """Output object that checks a sparse file with markers on the fly: zero bytes everywhere,
    except 16-byte markers (the decimal offset) at every multiple of STEP."""
    STEP = 64 << 20

    def __init__(self):
        super().__init__()
        self.pos = 0
        self.first_bad = None

    @classmethod
    def marker(cls, off):
        return (b'@%014d#' % off)[:16]

    def writable(self):
        return True

    def write(self, data):
        data = bytes(data)
        if self.first_bad is None:
            start, end = self.pos, self.pos + len(data)
            k = (start // self.STEP) * self.STEP
            expect = bytearray(len(data))
            while k < end:
                mk = self.marker(k)
                a, b = max(k, start), min(k + 16, end)
                if a < b:
                    expect[a - start:b - start] = mk[a - k:b - k]
                k += self.STEP
            if data != bytes(expect):
                for j in range(len(data)):
                    if data[j] != expect[j]:
                        self.first_bad = start + j
                        break
        self.pos += len(data)
        return len(data)


def big_add_file_case(counters):
    """add_file() by file name of a sparse file larger than one ISO9660 extent (the library opens
    the file itself for every extent), read back before mastering."""
    import pycdlib
    import tempfile
    if not os.path.isdir('/dev/shm'):
        counters['big_add_file_skipped'] = 1
        return []
    vio = []
    size = 0xfffff800 + 6000
    fd, path = tempfile.mkstemp(prefix='verif-c16-', dir='/dev/shm')
    try:
        with os.fdopen(fd, 'wb') as f:
            f.truncate(size)
            k = 0
            while k < size:
                f.seek(k)
                f.write(MarkerSink.marker(k)[:max(0, min(16, size - k))])
                k += MarkerSink.STEP
        iso = pycdlib.PyCdlib()
        iso.new(interchange_level=3)
        iso.add_file(path, iso_path='/BIG.DAT;1')
        sink = MarkerSink()
        iso.get_file_from_iso_fp(sink, blocksize=1 << 20, iso_path='/BIG.DAT;1')
        counters['big_add_file_bytes'] = sink.pos
        if sink.pos != size:
            vio.append({'key': 'extract:length:add_file:multi-extent', 'detail': 'file of %d bytes added by name reads back %d bytes' % (size, sink.pos)})
        elif sink.first_bad is not None:
            vio.append({'key': 'extract:bytes:add_file:multi-extent', 'detail': 'file of %d bytes added by name: first wrong byte at offset %d (extent boundary at %d)' % (size, sink.first_bad, 0xfffff800)})
        iso.close()
    finally:
        try:
            os.unlink(path)
        except OSError:
            pass
    return vio


def run_case(i, seed, tier):
    from harness.props import c01
    counters = {}
    if i == 11:
        vio = big_add_file_case(counters)
        return {'verdict': 'violated' if vio else 'held', 'violations': [dict(v, replay={'property': PROPERTY, 'case_seed': -1, 'mode': 'big-add-file'}) for v in vio],
                'nontrivial': True, 'shape': 'big-add-file', 'sample': {'mode': 'big-add-file'}, 'counters': counters}
    mode = ['opened', 'pending', 'mixed', 'opened', 'pending', 'mixed', 'reused'][i % 7]
    cs = seed * 1000003 + i
    vio, trace = run_program(cs, mode, counters)
    vio = c01.dedup(vio)
    nstreams = sum(1 for t in trace if t.startswith('open '))
    foreign = any(t in ('walk', 'list_children', 'get_record', 'write_fp') or t.startswith('get_file') for t in trace)
    import hashlib
    shape = hashlib.sha1(('%s|%s' % (mode, '|'.join(t.split('(')[0].split(' via ')[-1] for t in trace))).encode()).hexdigest()[:16]
    return {'verdict': 'violated' if vio else 'held',
            'violations': [dict(v, replay={'property': PROPERTY, 'case_seed': cs, 'mode': mode}) for v in vio],
            'nontrivial': nstreams >= 2 or foreign, 'shape': shape,
            'sample': {'mode': mode, 'trace': trace[:25]}, 'counters': counters}


def replay(doc):
    from harness.props import c01
    if doc.get('mode') == 'big-add-file':
        return big_add_file_case({})
    vio, trace = run_program(doc['case_seed'], doc['mode'], {})
    return c01.dedup(vio)
