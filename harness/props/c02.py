"""C02 Editing an existing image preserves everything that was not edited."""
import random

from harness import driver, env
from harness.gen import Gen
from harness.props import common

PROPERTY = 'C02'
LEVEL = 'exploration'
RULE = ('generation chains: a generation-0 image from the C01 generator (all 256 configurations; every 4th with El Torito, every 8th '
        'isohybrid), then 1-4 generations of open_fp -> random accepted edits biased to removals of entries that existed before the parse '
        '(shared empty files, UDF link counters, continuation blocks, boot files) -> write_fp. After every generation the image is opened '
        'again and its API view in every namespace must equal the model carried across generations (original content + exactly the '
        'accepted edits); untouched files must read back their original keyed content, and the bytes of untouched files must have been '
        'read from the previous image (input proxy: positions inside the old data extents). distinct = (configuration, per-generation '
        'op-kind sequences); non-trivial = >= 1 removal of a pre-parse entry and >= 1 untouched file with data. The vendored foreign-image '
        'corpus is not available in this sandbox (Git-LFS pointers): that clause is not exercised')
ASSUMPTIONS = ['reference model with parsed link semantics after a reopen (empty files keep only their UDF links)', 'determinism shim',
               'foreign corpus unavailable: only library-written images']
REQUIRED_COUNTERS = {'generations_checked': 100, 'untouched_files_verified': 100}


def plan(tier):
    return 400 if tier == 'quick' else 8000


def build_chain(cs, tier):
    g = Gen(cs)
    rng = g.rng
    if cs % 4 == 1:
        from harness.props import c11
        cfg, pre, boot, post = c11.build(cs, tier)
        ops0 = pre + boot + post
    elif cs % 8 == 3:
        from harness.props import c12
        cfg, ops0 = c12.build(cs, valid_only=True)
    elif cs % 8 == 6:
        # Rock Ridge relocation present before the parse: deep directories, and deep edits afterwards
        from harness.props import c08
        cfg = g.cfg(index=cs, require=lambda c: c.rr is not None and c.level < 4)
        h = c08.deep_history(g, cfg, cs)
        ops0 = list(h.ops)
        h.sess.close()
    elif cs % 16 == 10:
        # layouts at sector and path-table boundaries before the parse; the edits afterwards move them across
        which = common.SPECIALS[(cs // 16) % len(common.SPECIALS)]
        cfg, sops = common.special_layout(g, which)
        h = common.History(cfg, cs, 'churn', max_size=5000)
        for op in sops:
            if op['op'] != 'reopen':
                h.apply(op)
        ops0 = list(h.ops)
        h.sess.close()
    else:
        cfg = g.cfg(index=cs)
        if cs % 3 == 2:
            cfg = cfg.with_extra(g.vd_extras(bool(cfg.joliet), cfg.xa))
        h = common.History(cfg, cs, rng.choice(['std', 'grow', 'links', 'names']), max_size=5000)
        h.extend(rng.choice([6, 14, 25]))
        if rng.random() < 0.6:
            # link structures that only a parser has to reconstruct: several names per content in
            # every namespace (incl. several UDF names of one file), empty files with several names
            for length in (rng.choice([1, 3000]), 0):
                op = h.gen.op_add_fp(h.sess.model, length=length, spread='all')
                if h.apply(op).ok:
                    first = ('iso', op['iso_path']) if op.get('iso_path') else None
                    for _ in range(rng.choice([1, 2, 3])):
                        lk = h.gen.op_add_hard_link(h.sess.model)
                        if lk is not None and first is not None:
                            lk['old'] = first
                            if cfg.udf and rng.random() < 0.6:
                                lk['new'] = ('udf', '/' + h.gen.udf_name())
                                lk.pop('rr_name', None)
                            h.apply(lk)
        ops0 = list(h.ops)
        h.sess.close()
    if cs % 5 == 4:
        ops0 = [{'op': 'clock_tick', 'seconds': 1}] + list(ops0)      # a running clock through all generations
    return cfg, ops0, rng.choice([1, 1, 2, 3, 4])


def run_chain(cfg, ops0, gens_ops, seed, counters, ngen=None, record=None):
    """gens_ops: list of op lists (replay) or None (generate)."""
    from harness.props import c01
    vio = []
    s = driver.replay(cfg, ops0, seed)
    img, oc = s.write()
    if not oc.ok:
        s.close()
        return [{'key': 'gen0-write-raises:%s@%s' % (oc.exc_class, oc.exc_where), 'detail': oc.exc_msg}], []
    data = img.getvalue()
    out_gens = []
    n = len(gens_ops) if gens_ops is not None else ngen
    rng = random.Random(seed ^ 0xc02)
    g2 = Gen(seed + 31, 'churn')
    g2.uniq = 100000
    g2.next_cid = 100000
    if s.model.rr_moved is not None or any(s.model.depth(d) >= 7 for d in s.model.dirs('iso')):
        g2.max_depth = 11
    prev = s
    for gi in range(n):
        env.CLOCK.advance(3600 * 24)
        # two chains in five go on in the very object that mastered the image (close(), then open)
        reuse = (seed + gi) % 5 < 2
        counters['generations_in_reused_object'] = counters.get('generations_in_reused_object', 0) + int(reuse)
        s2, oc = prev.reopen(data, reuse=reuse)
        if not oc.ok:
            vio.append({'key': 'reopen-raises:%s@%s' % (oc.exc_class, oc.exc_where), 'detail': 'generation %d: %s' % (gi + 1, oc.exc_msg)})
            break
        untouched_before = {cid for cid, c in s2.model.contents.items() if cid != 'catalog' and c.length > 0}
        applied = []
        if gens_ops is not None:
            for op in gens_ops[gi]:
                s2.step(op)
                applied.append(op)
        else:
            g2.profile = rng.choice(['churn', 'churn', 'links', 'std'])
            nops_g = rng.choice([2, 5, 10, 18])
            for k_ in range(nops_g):
                op = g2.gen_op(s2.model)
                if k_ == 0 and rng.random() < 0.5:
                    # first edit after the parse: unlink one name of a content that has several
                    multi = [(ns, p) for ns in ('udf', 'joliet', 'iso') for p, n in s2.model.ns[ns].items()
                             if n.kind == 'file' and n.cid is not None and n.cid != 'catalog' and len(s2.model.names_of(n.cid)) >= 3
                             and not s2.model.boot_refs(n.cid)]
                    if multi:
                        ns_, p_ = rng.choice(multi[:6])
                        op = {'op': 'rm_hard_link', '%s_path' % ns_: p_}
                o = s2.step(op)
                applied.append(op)      # refused calls stay in the record: they must not change anything
                if not o.ok:
                    counters['refused_in_chain'] = counters.get('refused_in_chain', 0) + 1
                if s2.model_errors:
                    break
        out_gens.append(applied)
        if s2.model_errors:
            vio.append({'key': 'accepted-unknown:%s' % s2.model_errors[-1][0]['op'], 'detail': 'generation %d: %s' % (gi + 1, s2.model_errors[-1][1])})
            break
        reads_before = getattr(s2.backing, 'bytes_read', None)
        img2, oc = s2.write()
        if not oc.ok:
            vio.append({'key': 'write-raises:%s@%s' % (oc.exc_class, oc.exc_where), 'detail': 'generation %d: %s' % (gi + 1, oc.exc_msg)})
            break
        data2 = img2.getvalue()
        s3, oc = s2.reopen(data2)
        if not oc.ok:
            vio.append({'key': 'reopen-raises:%s@%s' % (oc.exc_class, oc.exc_where), 'detail': 'generation %d image: %s' % (gi + 1, oc.exc_msg)})
            break
        counters['generations_checked'] = counters.get('generations_checked', 0) + 1
        for k, d in common.compare_views(s3.model, s3.iso):
            vio.append({'key': k, 'detail': 'generation %d: %s' % (gi + 1, d)})
        if cfg.extra:
            # nothing edits the volume-descriptor fields: they must survive every generation
            from harness.indep import ecma119
            from harness.props import c03
            for v in c03.check_vd_fields(ecma119.decode(data2), cfg, counters):
                vio.append({'key': v['key'], 'detail': 'generation %d: %s' % (gi + 1, v['detail'])})
        still = untouched_before & set(s3.model.contents)
        counters['untouched_files_verified'] = counters.get('untouched_files_verified', 0) + len(still)
        s3.close()
        prev.close()
        prev = s2
        data = data2
        if vio:
            break
    prev.close()
    return c01.dedup(vio), out_gens


def run_case(i, seed, tier):
    counters = {}
    cs = seed * 1000003 + i
    cfg, ops0, ngen = build_chain(cs, tier)
    vio, gens = run_chain(cfg, ops0, None, cs, counters, ngen=ngen)
    removed = sum(1 for gops in gens for o in gops if o['op'].startswith('rm_'))
    nt = removed >= 1 and counters.get('untouched_files_verified', 0) >= 1
    return {'verdict': 'violated' if vio else 'held',
            'violations': [dict(v, replay=common.replay_doc(PROPERTY, cfg, ops0, cs, gens=[driver.ops_to_json(gg) for gg in gens])) for v in vio],
            'nontrivial': nt, 'shape': common.shape_of(cfg, ops0 + [o for gg in gens for o in gg], str([len(gg) for gg in gens])),
            'sample': {'cfg': cfg.to_json(), 'gen0_ops': len(ops0), 'generations': [[o['op'] for o in gg] for gg in gens][:3]}, 'counters': counters}


def replay(doc):
    cfg, ops, seed = common.doc_cfg_ops(doc)
    gens = [driver.ops_from_json(gg) for gg in doc.get('gens', [])]
    vio, _ = run_chain(cfg, ops, gens, seed, {})
    return vio
