"""C19 Recorded timestamps denote the instant they were made from."""
import calendar
import io
import os
import random
import struct
import time

from harness import driver, env
from harness.model import Cfg
from harness.props import common

PROPERTY = 'C19'
LEVEL = 'exploration'
RULE = ('one case = one process time zone (os.environ TZ + time.tzset): 105 fixed POSIX offsets -12:00..+14:00 in 15-minute steps, '
        'POSIX DST-rule zones of both hemispheres, odd offsets (excluded per instant when not a multiple of 15 min) and named zones '
        'when tzdata exists; x ~400 instants from 1970..2099 (uniform, year boundaries +-1 s +-offset, 29 Feb, DST transitions found by '
        'scanning). For every instant: DirectoryRecordDate / VolumeDescriptorDate / RRTFRecord (7- and 17-byte) / UDFTimestamp '
        '.new(t).record() decoded independently (local fields + recorded offset -> instant) and compared with t to the second; '
        'parse->record identity on the recorded and on random valid byte strings; per zone one real image (Rock Ridge + UDF) is '
        'written at a virtual instant and every date found by the independent decoders (directory records, PVD dates, TF entries, '
        'UDF file-entry timestamps) is decoded the same way. distinct = (zone class, instant class); non-trivial = non-UTC zone and '
        'instant within a day of a year or DST boundary')
ASSUMPTIONS = ['the process tz database (time.localtime) defines the true offset; instants whose true offset is not a multiple of 15 minutes are excluded',
               'independent decoders locate the on-disc dates in the image-level part']
REQUIRED_COUNTERS = {'timestamps_decoded': 2000, 'image_dates_decoded': 20}


def zones():
    zs = ['UTC']
    for q in range(-48, 57):   # POSIX sign is inverted: 'X-05:30' means UTC+5:30
        if q == 0:
            continue
        sign = '-' if q > 0 else '+'
        a = abs(q)
        zs.append('VTZ%s%02d:%02d' % (sign, a // 4, (a % 4) * 15))
    zs += ['EST5EDT,M3.2.0,M11.1.0', 'CET-1CEST,M3.5.0,M10.5.0/3', 'AEST-10AEDT,M10.1.0,M4.1.0/3', 'NZST-12NZDT,M9.5.0,M4.1.0/3',
           'LHST-10:30LHDT-11,M10.1.0,M4.1.0', 'IST-5:30', 'NPT-5:45', 'CHAST-12:45CHADT,M9.5.0/2:45,M4.1.0/3:45',
           'ODD-0:20', 'ODD2+3:07', 'WET0WEST,M3.5.0/1,M10.5.0', 'XX-14', 'YY+12']
    for name in ('America/New_York', 'Europe/Berlin', 'Asia/Kolkata', 'Asia/Kathmandu', 'Australia/Lord_Howe', 'Pacific/Kiritimati',
                 'Pacific/Chatham', 'America/St_Johns', 'Africa/Monrovia', 'America/Caracas', 'Asia/Pyongyang', 'Pacific/Apia'):
        if os.path.exists('/usr/share/zoneinfo/' + name):
            zs.append(name)
    return zs


ZONES = zones()


def plan(tier):
    return len(ZONES) if tier == 'quick' else len(ZONES) * 12


def set_tz(z):
    os.environ['TZ'] = z
    time.tzset()


def true_offset(t):
    return time.localtime(t).tm_gmtoff


def instants(rng, n, zone_has_dst):
    out = []
    lo, hi = 0, 4102444799   # 1970-01-01 .. 2099-12-31
    for _ in range(n // 2):
        out.append(('uniform', rng.randint(lo, hi)))
    years = rng.sample(range(1971, 2100), 12)
    for y in years:
        base = calendar.timegm((y, 1, 1, 0, 0, 0))
        for d in (-1, 0, 1):
            out.append(('year-edge', base + d))
        off = rng.choice([-14, -12, -5, -1, 1, 5, 9, 12]) * 3600 + rng.choice([0, 900, 1800, 2700])
        out.append(('year-edge', base + off))
        out.append(('year-edge', base + off - 1))
    for y in (1972, 1996, 2000, 2024, 2096):
        out.append(('leap-day', calendar.timegm((y, 2, 29, rng.randint(0, 23), rng.randint(0, 59), rng.randint(0, 59)))))
        out.append(('leap-day', calendar.timegm((y, 3, 1, 0, 0, 0)) - 1))
    # DST transitions by scanning a few years at 1-day steps, then bisecting
    for y in rng.sample(range(1975, 2095), 4):
        t = calendar.timegm((y, 1, 1, 0, 0, 0))
        prev = true_offset(t)
        for day in range(1, 366):
            t2 = t + day * 86400
            cur = true_offset(t2)
            if cur != prev:
                a, b = t2 - 86400, t2
                while b - a > 1:
                    m = (a + b) // 2
                    if true_offset(m) == prev:
                        a = m
                    else:
                        b = m
                for d in (-1, 0, 1, 3599, 3600, -3600):
                    out.append(('dst-edge', b + d))
                prev = cur
    return out


def decode7(b):
    y, mo, d, h, mi, s, off = struct.unpack('=BBBBBBb', b[:7])
    return calendar.timegm((1900 + y, mo, d, h, mi, s)) - off * 900


def decode17(b):
    txt = b[:14].decode('ascii')
    fields = (int(txt[0:4]), int(txt[4:6]), int(txt[6:8]), int(txt[8:10]), int(txt[10:12]), int(txt[12:14]))
    off = struct.unpack('=b', b[16:17])[0]
    return calendar.timegm(fields) - off * 900


def decode_udf(b):
    tz_type, year, month, day, hour, minute, second = struct.unpack_from('<HHBBBBB', b, 0)
    tz = tz_type & 0x0fff
    if tz & 0x800:
        tz -= 0x1000
    typ = tz_type >> 12
    if tz == -2047:
        return None, typ
    return calendar.timegm((year, month, day, hour, minute, second)) - tz * 60, typ


def offset_class(t):
    off = true_offset(t)
    if off == 0:
        return 'utc'
    if off % 3600 == 0:
        return 'whole-hour'
    if off % 1800 == 0:
        return 'half-hour'
    return '45-min'


def check_instant(t, kind, counters, classes):
    from pycdlib import dates, rockridge, udf
    vio = []
    # the instant as the clock gives it: with a fraction of a second (the recorded second is its floor)
    tfl = float(t) + (0.0, 0.25, 0.5, 0.999)[t % 4]
    if true_offset(t) % 900 != 0:
        counters['excluded_offset_not_15min'] = counters.get('excluded_offset_not_15min', 0) + 1
        return vio
    oc = kind if kind in ('dst-edge', 'year-edge') else offset_class(t)
    classes.add((oc, kind))
    def report(cls, what, got):
        vio.append({'key': '%s:instant:%s' % (cls, oc), 'detail': 'TZ=%s t=%d (%s): %s decodes to %r (diff %s s)' % (os.environ.get('TZ'), t, time.strftime('%Y-%m-%d %H:%M:%S', time.gmtime(t)), what, got, (got - t) if got is not None else None),
                    'replay': {'tz': os.environ.get('TZ'), 't': t}})
    counters.setdefault('timestamps_decoded', 0)
    try:
        d = dates.DirectoryRecordDate(); d.new(tfl); b = d.record()
        got = decode7(b); counters['timestamps_decoded'] += 1
        if got != t:
            report('dr-date', b.hex(), got)
        d2 = dates.DirectoryRecordDate(); d2.parse(b)
        if d2.record() != b:
            vio.append({'key': 'dr-date:roundtrip', 'detail': b.hex(), 'replay': {'tz': os.environ.get('TZ'), 't': t}})
    except Exception as e:  # recording a valid instant must not fail
        vio.append({'key': 'dr-date:raises:%s:instant:%s' % (type(e).__name__, oc), 'detail': 'TZ=%s t=%d (%s): %s' % (os.environ.get('TZ'), t, time.strftime('%Y-%m-%d %H:%M:%S', time.gmtime(t)), e), 'replay': {'tz': os.environ.get('TZ'), 't': t}})
    try:
        v = dates.VolumeDescriptorDate(); v.new(tfl); b = v.record()
        got = decode17(b); counters['timestamps_decoded'] += 1
        if got != t:
            report('vd-date', repr(b), got)
        v2 = dates.VolumeDescriptorDate(); v2.parse(b)
        if v2.record() != b:
            vio.append({'key': 'vd-date:roundtrip', 'detail': repr(b), 'replay': {'tz': os.environ.get('TZ'), 't': t}})
    except Exception as e:  # recording a valid instant must not fail
        vio.append({'key': 'vd-date:raises:%s:instant:%s' % (type(e).__name__, oc), 'detail': 'TZ=%s t=%d (%s): %s' % (os.environ.get('TZ'), t, time.strftime('%Y-%m-%d %H:%M:%S', time.gmtime(t)), e), 'replay': {'tz': os.environ.get('TZ'), 't': t}})
    try:
        for flags in (0x0e, 0x8e, 0x7f, 0xff):
            tf = rockridge.RRTFRecord(); tf.new(flags, tfl); b = tf.record()
            n = 17 if flags & 0x80 else 7
            body = b[5:]
            for k in range(len(body) // n):
                stamp = body[k * n:(k + 1) * n]
                got = decode17(stamp) if n == 17 else decode7(stamp)
                counters['timestamps_decoded'] += 1
                if got != t:
                    report('tf-%d' % n, stamp.hex(), got)
                    break
            tf2 = rockridge.RRTFRecord(); tf2.parse(b)
            if tf2.record() != b:
                vio.append({'key': 'tf:roundtrip', 'detail': b.hex(), 'replay': {'tz': os.environ.get('TZ'), 't': t}})
    except Exception as e:  # recording a valid instant must not fail
        vio.append({'key': 'tf:raises:%s:instant:%s' % (type(e).__name__, oc), 'detail': 'TZ=%s t=%d (%s): %s' % (os.environ.get('TZ'), t, time.strftime('%Y-%m-%d %H:%M:%S', time.gmtime(t)), e), 'replay': {'tz': os.environ.get('TZ'), 't': t}})
    try:
        u = udf.UDFTimestamp(); u.new(tfl); b = u.record()
        got, typ = decode_udf(b); counters['timestamps_decoded'] += 1
        if got != t:
            report('udf-ts', b.hex(), got)
        u2 = udf.UDFTimestamp(); u2.parse(b)
        if u2.record() != b:
            vio.append({'key': 'udf-ts:roundtrip', 'detail': b.hex(), 'replay': {'tz': os.environ.get('TZ'), 't': t}})
    except Exception as e:  # recording a valid instant must not fail
        vio.append({'key': 'udf-ts:raises:%s:instant:%s' % (type(e).__name__, oc), 'detail': 'TZ=%s t=%d (%s): %s' % (os.environ.get('TZ'), t, time.strftime('%Y-%m-%d %H:%M:%S', time.gmtime(t)), e), 'replay': {'tz': os.environ.get('TZ'), 't': t}})
    return vio


def check_random_roundtrips(rng, counters):
    from pycdlib import dates, udf
    vio = []
    for _ in range(50):
        b = bytes([rng.randint(0, 255), rng.randint(1, 12), rng.randint(1, 31), rng.randint(0, 23), rng.randint(0, 59), rng.randint(0, 59), rng.randint(0, 255)])
        d = dates.DirectoryRecordDate(); d.parse(b)
        if d.record() != b:
            vio.append({'key': 'dr-date:roundtrip', 'detail': 'parse/record of %s gives %s' % (b.hex(), d.record().hex())})
        s = ('%04d%02d%02d%02d%02d%02d%02d' % (rng.randint(1, 9999), rng.randint(1, 12), rng.randint(1, 28), rng.randint(0, 23), rng.randint(0, 59), rng.randint(0, 59), rng.randint(0, 99))).encode() + struct.pack('=b', rng.randint(-48, 52))
        v = dates.VolumeDescriptorDate(); v.parse(s)
        if v.record() != s:
            vio.append({'key': 'vd-date:roundtrip', 'detail': 'parse/record of %r gives %r' % (s, v.record())})
        tz = rng.choice([rng.randint(-1440, 1440), -2047])
        typ = rng.choice([0, 1, 2])
        ub = struct.pack('<HHBBBBBBBB', ((typ << 12) | (tz & 0x0fff)), rng.randint(1, 9999), rng.randint(1, 12), rng.randint(1, 28), rng.randint(0, 23), rng.randint(0, 59), rng.randint(0, 59), rng.randint(0, 99), rng.randint(0, 99), rng.randint(0, 99))
        u = udf.UDFTimestamp()
        try:
            u.parse(ub)
            if u.record() != ub:
                vio.append({'key': 'udf-ts:roundtrip', 'detail': 'parse/record of %s gives %s' % (ub.hex(), u.record().hex())})
        except Exception as e:
            vio.append({'key': 'udf-ts:parse-raises:%s' % type(e).__name__, 'detail': '%s: %s' % (ub.hex(), e)})
        # a Rock Ridge TF entry as another producer may have written it: any subset of the seven
        # stamps, in the 7-byte or in the 17-byte form
        from pycdlib import rockridge
        flags = rng.choice([0x0e, 0x0f, 0x07, 0x8e, 0x8f, 0x01, 0x7f, 0xff, 0x0a, 0x82, rng.randint(1, 255)])
        n_ = bin(flags & 0x7f).count('1')
        if flags & 0x80:
            stamps = b''.join(('%04d%02d%02d%02d%02d%02d%02d' % (rng.randint(1970, 2099), rng.randint(1, 12), rng.randint(1, 28), rng.randint(0, 23), rng.randint(0, 59), rng.randint(0, 59), rng.randint(0, 99))).encode()
                              + struct.pack('=b', rng.randint(-48, 52)) for _k in range(n_))
        else:
            stamps = b''.join(bytes([rng.randint(70, 199), rng.randint(1, 12), rng.randint(1, 28), rng.randint(0, 23), rng.randint(0, 59), rng.randint(0, 59), rng.randint(0, 255)]) for _k in range(n_))
        tb = b'TF' + bytes([5 + len(stamps), 1, flags]) + stamps
        tf = rockridge.RRTFRecord()
        try:
            tf.parse(tb)
            if tf.record() != tb:
                vio.append({'key': 'tf:roundtrip:foreign-form', 'detail': 'parse/record of TF flags %#04x (%d bytes) gives %d bytes %s' % (flags, len(tb), len(tf.record()), tf.record()[:12].hex())})
        except Exception as e:
            vio.append({'key': 'tf:parse-raises:%s' % type(e).__name__, 'detail': 'flags %#04x: %s' % (flags, e)})
        counters['roundtrips_random'] = counters.get('roundtrips_random', 0) + 4
    return vio


def check_image(t, counters):
    """A real image mastered at virtual time t; every date the decoders find."""
    from harness.indep import ecma119, susp, udf as iudf
    vio = []
    if true_offset(t) % 900 != 0:
        return vio
    env.CLOCK.now = float(t)
    cfg = Cfg(level=4 if t % 3 == 0 else 3, joliet=3, rr='1.09', udf=True)
    s = driver.Session(cfg, 0).new()
    s.step({'op': 'add_directory', 'iso_path': '/D', 'rr_name': 'd', 'joliet_path': '/d', 'udf_path': '/d'})
    s.step({'op': 'add_fp', 'cid': 1, 'length': 10, 'iso_path': '/D/F.;1', 'rr_name': 'f', 'joliet_path': '/d/f', 'udf_path': '/d/f'})
    img, oc = s.write()
    s.close()
    if not oc.ok:
        return [{'key': 'image:write-raises', 'detail': oc.summary()}]
    data = img.getvalue()
    oc_ = 'image'
    dec = ecma119.decode(data)
    def rep(what, got):
        vio.append({'key': 'image:%s:%s' % (what, offset_class(t)), 'detail': 'TZ=%s t=%d: %s decodes to %r' % (os.environ.get('TZ'), t, what, got), 'replay': {'tz': os.environ.get('TZ'), 't': t, 'image': True}})
    for vol in dec.volumes:
        # no expiry date was given: "not specified" in every descriptor, not some instant
        exp_ = bytes(vol.fields['dates']['expiration'])
        if exp_ != b'0' * 16 + b'\x00':
            vio.append({'key': 'image:%s-vd-expiration:not-unspecified' % vol.kind, 'detail': 'TZ=%s t=%d: no expiry date given, recorded %r' % (os.environ.get('TZ'), t, exp_), 'replay': {'tz': os.environ.get('TZ'), 't': t, 'image': True}})
        for name in ('creation', 'modification', 'effective'):
            b = vol.fields['dates'][name]
            if b[:16] != b'0' * 16:
                got = decode17(b)
                counters['image_dates_decoded'] = counters.get('image_dates_decoded', 0) + 1
                if got != t:
                    rep('%s-vd-%s' % (vol.kind, name), got)
        for d in vol.dirs.values():
            for r in d.records:
                got = decode7(r.date)
                counters['image_dates_decoded'] = counters.get('image_dates_decoded', 0) + 1
                if got != t:
                    rep('%s-dr-date' % vol.kind, got)
                    break
    rr = susp.decode(data, dec)
    for e in list(rr.entries.values()) + [x for pair in rr.dots.values() for x in pair]:
        tf = getattr(e, 'tf', None)
        if not tf:
            continue
        for nm, stamp in tf.get('stamps', {}).items():
            got = decode17(stamp) if tf.get('long_form') else decode7(stamp)
            counters['image_dates_decoded'] = counters.get('image_dates_decoded', 0) + 1
            if got != t:
                rep('tf-%s' % nm, got)
                break
    u = iudf.decode(data)
    for path, stamps in u.info.get('timestamps', {}).items():
        for nm, tup in stamps.items():
            typ, tz, year, month, day, hour, minute, second = tup[:8]
            if tz == -2047:
                continue
            got = calendar.timegm((year, month, day, hour, minute, second)) - tz * 60
            counters['image_dates_decoded'] = counters.get('image_dates_decoded', 0) + 1
            if got != t:
                rep('udf-fe-%s' % nm, got)
                break
    for nm in ('lvid_timestamp', 'fsd_timestamp'):
        tup = u.info.get(nm)
        if tup and tup[1] != -2047:
            got = calendar.timegm(tuple(tup[2:8])) - tup[1] * 60
            counters['image_dates_decoded'] = counters.get('image_dates_decoded', 0) + 1
            if got != t:
                rep('udf-%s' % nm, got)
    vio += check_image_preserves(t, counters)
    return vio


def all_stamps(data):
    """Every recorded time of an image except the volume modification dates, raw:
    {where: bytes-or-tuple}."""
    from harness.indep import ecma119, susp, udf as iudf
    out = {}
    dec = ecma119.decode(data)
    for vol in dec.volumes:
        for name in ('creation', 'effective', 'expiration'):
            out['%s:vd:%s' % (vol.kind, name)] = bytes(vol.fields['dates'][name])
        for dpath, d in vol.dirs.items():
            for r in d.records:
                out['%s:dr:%s:%r' % (vol.kind, dpath, r.ident)] = bytes(r.date)
    rr = susp.decode(data, dec)
    for e in list(rr.entries.values()) + [x for pair in rr.dots.values() for x in pair]:
        tf = getattr(e, 'tf', None)
        if tf:
            for nm, stamp in tf.get('stamps', {}).items():
                out['tf:%s:%s' % (e.where, nm)] = bytes(stamp)
    u = iudf.decode(data)
    for path, stamps in u.info.get('timestamps', {}).items():
        for nm, tup in stamps.items():
            out['udf-fe:%s:%s' % (path, nm)] = tuple(tup[:8])
    return out


def check_image_preserves(t, counters):
    """Parsing then re-recording is the identity: an image whose records carry *different* access /
    modification / attribute / creation times (the clock runs while it is built) is opened, written
    again a day later, and every recorded time is still the same."""
    env.CLOCK.now = float(t)
    env.CLOCK.tick = 1.0
    try:
        cfg = Cfg(level=4 if t % 3 == 0 else 3, joliet=3, rr='1.12' if t % 2 else '1.09', udf=True)
        s = driver.Session(cfg, 0).new()
        s.step({'op': 'add_directory', 'iso_path': '/D', 'rr_name': 'd', 'joliet_path': '/d', 'udf_path': '/d'})
        s.step({'op': 'add_fp', 'cid': 1, 'length': 10, 'iso_path': '/D/F.;1', 'rr_name': 'f', 'joliet_path': '/d/f', 'udf_path': '/d/f'})
        s.step({'op': 'add_symlink', 'symlink_path': '/L.;1', 'rr_symlink_name': 'l', 'rr_path': 'd/f', 'udf_symlink_path': '/l', 'udf_target': 'd/f'})
        env.CLOCK.tick = 0.0
        img, oc = s.write()
        if not oc.ok:
            s.close()
            return [{'key': 'image:write-raises', 'detail': oc.summary()}]
        first = img.getvalue()
        env.CLOCK.advance(86400)
        s2, oc2 = s.reopen(first)
        if not oc2.ok:
            s.close()
            return [{'key': 'image:reopen-raises', 'detail': oc2.summary()}]
        img2, oc3 = s2.write()
        s2.close()
        s.close()
        if not oc3.ok:
            return [{'key': 'image:write-raises', 'detail': 'second write: ' + oc3.summary()}]
    finally:
        env.CLOCK.tick = 0.0
    a, b = all_stamps(first), all_stamps(img2.getvalue())
    counters['stamps_compared_after_rewrite'] = counters.get('stamps_compared_after_rewrite', 0) + len(a)
    counters['distinct_stamps_in_image'] = max(counters.get('distinct_stamps_in_image', 0), len(set(map(repr, a.values()))))
    vio = []
    for k in sorted(set(a) | set(b)):
        if a.get(k) != b.get(k):
            vio.append({'key': 'rewrite:stamp-changed:%s' % k.split(':')[0 if not k.startswith(('pvd', 'joliet', 'enhanced')) else 1],
                        'detail': 'TZ=%s t=%d: %s was %r, after open + write it is %r' % (os.environ.get('TZ'), t, k, a.get(k), b.get(k)),
                        'replay': {'tz': os.environ.get('TZ'), 't': t, 'image': True}})
            break
    return vio


def run_zone(zone, seed, counters, classes, n_instants):
    from harness.props import c01
    rng = random.Random('%s/%d' % (zone, seed))
    set_tz(zone)
    try:
        vio = []
        ins = instants(rng, n_instants, True)
        for kind, t in ins:
            vio += check_instant(t, kind, counters, classes)
        vio += check_random_roundtrips(rng, counters)
        for kind, t in rng.sample(ins, 3):
            try:
                vio += check_image(t, counters)
            except Exception as e:
                where = driver.innermost_pycdlib_frame(e)
                if where == '?':
                    raise   # not raised inside the library: a harness error, reported as inconclusive
                vio.append({'key': 'image:raises:%s@%s' % (type(e).__name__, where), 'detail': 'TZ=%s t=%d: mastering an image at this instant: %s' % (os.environ.get('TZ'), t, e),
                            'replay': {'tz': os.environ.get('TZ'), 't': t}})
    finally:
        set_tz('UTC')
    return c01.dedup(vio)


def run_case(i, seed, tier):
    counters, classes = {}, set()
    zone = ZONES[i % len(ZONES)]
    vio = run_zone(zone, seed * 1000 + i // len(ZONES), counters, classes, 400 if tier == 'quick' else 1600)
    for v in vio:
        v.setdefault('replay', {})
        v['replay'].update({'property': PROPERTY, 'zone': zone, 'zseed': seed * 1000 + i // len(ZONES)})
    nt = zone != 'UTC' and any(k in ('dst-edge', 'year-edge') for _, k in classes)
    return {'verdict': 'violated' if vio else 'held', 'violations': vio, 'nontrivial': nt,
            'shape': '%s/%s' % (zone, seed * 1000 + i // len(ZONES)),
            'sample': {'zone': zone, 'classes': sorted(map(list, classes))[:8]}, 'counters': counters}


def replay(doc):
    counters, classes = {}, set()
    return run_zone(doc['zone'], doc.get('zseed', 0), counters, classes, 400)
