"""Pieces shared by the property modules: history building, view comparison,
shape hashing, replay documents."""
import hashlib

from harness import apiview, driver, env
from harness.driver import Session, ops_to_json, ops_from_json
from harness.gen import Gen
from harness.model import Cfg

PROFILES = ['std', 'churn', 'links', 'names', 'grow', 'std', 'churn', 'std']


def shape_of(cfg, ops, extra=''):
    h = hashlib.sha1()
    h.update(repr(cfg.key()).encode())
    for op in ops:
        h.update(op['op'].encode())
        for k in ('iso_path', 'joliet_path', 'udf_path', 'rr_name', 'symlink_path', 'udf_symlink_path'):
            if op.get(k):
                h.update(k[0].encode())
    h.update(extra.encode())
    return h.hexdigest()[:16]


def mask_bit(data):
    if len(data) <= 8:
        return data
    return data[:8] + b'\x00' * (min(64, len(data)) - 8) + data[64:]


def compare_views(model, iso, namespaces=None, skip_iso_if_relocated=True, counters=None):
    """API view of a live object vs. the model.  Returns [(key, detail)]."""
    problems = []
    for ns in (namespaces or model.cfg.namespaces()):
        if ns == 'iso' and (model.rr_moved is not None or model.relocation_active()) and skip_iso_if_relocated:
            continue
        mv = model.view(ns)
        if ns == 'rr' and model.relocation_active():
            mv = dict(mv)
            model._update_reloc()
            mv['/' + model.reloc_name[1]] = ('dir', None, None, None, False)
        try:
            av = apiview.view(iso, ns)
        except Exception as e:
            problems.append(('view:%s:walk-raises:%s@%s' % (ns, type(e).__name__, driver.innermost_pycdlib_frame(e)), str(e)))
            continue
        if counters is not None:
            counters['view_entries'] = counters.get('view_entries', 0) + len(av)
        if not model.relocation_active() and model.rr_moved is None:
            for k_, d_ in apiview.consistency(iso, ns, av):
                problems.append((k_, d_))
            if counters is not None:
                counters['api_consistency_views'] = counters.get('api_consistency_views', 0) + 1
        for p in sorted(set(mv) - set(av)):
            problems.append(('view:%s:missing' % ns, '%s (%s) not shown by the API' % (p, mv[p][0])))
        for p in sorted(set(av) - set(mv)):
            problems.append(('view:%s:extra' % ns, '%s (%s) shown by the API, not in the model' % (p, av[p][0])))
        for p in sorted(set(av) & set(mv)):
            m, a = mv[p], av[p]
            if m[0] != a[0]:
                problems.append(('view:%s:kind' % ns, '%s model %s api %s' % (p, m[0], a[0])))
                continue
            if ns != 'udf' and m[4] != a[4]:
                problems.append(('view:%s:hidden' % ns, '%s model %s api %s' % (p, m[4], a[4])))
            if m[0] == 'symlink':
                if a[3] is not None and m[3] != a[3]:
                    problems.append(('view:%s:target' % ns, '%s model %r api %r' % (p, m[3][:80], a[3][:80])))
                continue
            if m[0] != 'file':
                continue
            cid = m[2]
            if cid is None:
                if a[1] != 0:
                    problems.append(('view:%s:length' % ns, '%s model 0 api %s' % (p, a[1])))
                continue
            content = model.contents[cid]
            if content.special == 'catalog':
                if a[1] != 2048:
                    problems.append(('view:%s:length' % ns, '%s catalog length api %s' % (p, a[1])))
                continue
            if isinstance(a[2], tuple):
                if a[2][0] == 'pattern':
                    if a[2][2] is False or a[2][2] != content.length:
                        problems.append(('view:%s:bytes' % ns, '%s large file differs (%r)' % (p, a[2])))
                else:
                    problems.append(('view:%s:read-raises:%s' % (ns, a[2][1]), '%s: %s' % (p, a[2][2])))
                continue
            if a[1] != content.length:
                problems.append(('view:%s:length' % ns, '%s model %d api %s' % (p, content.length, a[1])))
                continue
            if a[2] is not None:
                exp = content.bytes()
                got = a[2]
                if content.bit:
                    exp, got = mask_bit(exp), mask_bit(got)
                if exp != got:
                    first = next((i for i in range(min(len(exp), len(got))) if exp[i] != got[i]), -1)
                    problems.append(('view:%s:bytes' % ns, '%s differs at byte %d' % (p, first)))
    return problems


class History:
    """Builds a random accepted history on a fresh image.  An operation the
    library refuses is dropped and the object is rebuilt from the accepted
    prefix (a refused edit must not influence later oracles; residue of refused
    edits is C14's subject)."""

    def __init__(self, cfg, seed, profile='std', always_consistent=False, max_size=None, max_depth=None):
        self.cfg = cfg
        self.seed = seed
        self.gen = Gen(seed, profile)
        if max_size is not None:
            self.gen.max_size = max_size
        if max_depth is not None:
            self.gen.max_depth = max_depth
        self.always_consistent = always_consistent
        env.reset(seed)
        self.sess = driver.first_session(cfg, seed, always_consistent).new()
        self.refused = []
        self.rebuilds = 0

    def reopen(self, reuse=False):
        """Master the image and continue the history on a fresh object that opened it (reuse: on
        the same object after close()); recorded in the op list as the marker {'op': 'reopen'}
        (driver.replay understands it)."""
        s2, out = driver.advance(self.sess, {'op': 'reopen', 'reuse': True} if reuse else {'op': 'reopen'})
        if not out.ok:
            return False
        self.sess = s2
        return True

    def extend(self, n, pre=None):
        for _ in range(n):
            op = self.gen.gen_op(self.sess.model)
            self.apply(op)
        return self

    def apply(self, op):
        if op['op'] == 'reopen':
            return self.reopen(reuse=bool(op.get('reuse')))
        before = None
        if op['op'].startswith('rm_'):
            m = self.sess.model
            before = {ns: {p: (n.kind, n.rr_name) for p, n in m.ns[ns].items()} for ns in ('iso', 'joliet', 'udf')}
        out = self.sess.step(op)
        if not out.ok:
            self.refused.append((op, out.summary()))
            self.rebuild()
        elif before is not None:
            self.gen.note_removed(before, self.sess.model)
        return out

    def rebuild(self):
        acc = list(self.ops)
        self.sess.close()
        self.sess = driver.replay(self.cfg, acc, self.seed, self.always_consistent)
        self.rebuilds += 1

    @property
    def ops(self):
        return self.sess.accepted


def replay_doc(prop, cfg, ops, seed, **extra):
    d = {'property': prop, 'cfg': cfg.to_json(), 'seed': seed, 'ops': ops_to_json(ops)}
    d.update(extra)
    return d


def doc_cfg_ops(doc):
    return Cfg.from_json(doc['cfg']), ops_from_json(doc['ops']), doc.get('seed', 0)


def short_ops(ops, limit=40):
    out = []
    for op in ops[:limit]:
        d = {k: (v if not isinstance(v, (bytes, bytearray)) else '<%d bytes>' % len(v)) for k, v in op.items() if k not in ('data',)}
        for k, v in list(d.items()):
            if isinstance(v, str) and len(v) > 60:
                d[k] = v[:28] + '...(%d)' % len(v)
        out.append(d)
    return out


# ---- independent decoding helpers -------------------------------------------
def decode_all(img):
    """Run every independent decoder that exists; returns dict."""
    from harness.indep import ecma119, udf, eltorito, hybrid
    out = {'ecma': ecma119.decode(img)}
    try:
        from harness.indep import susp
        out['susp'] = susp.decode(img, out['ecma']) if out['ecma'].pvd is not None else None
    except ImportError:
        out['susp'] = None
    out['udf'] = udf.decode(img)
    out['eltorito'] = eltorito.decode(img, catalog_len=2048)
    out['hybrid'] = hybrid.decode(img)
    return out


def full_extent_map(dec):
    ext = list(dec['ecma'].extent_map)
    if dec.get('susp') is not None and getattr(dec['susp'], 'present', False):
        ext += [e for e in dec['susp'].extent_map if e[0] == 'rr-ce-sector']
    if dec['udf'].present:
        ext += list(dec['udf'].extent_map)
    if dec['eltorito'].present:
        ext += [e for e in dec['eltorito'].extent_map if e[0] != 'boot-record']
    if dec['hybrid'].present:
        ext += list(dec['hybrid'].extent_map)
    return ext


class ExtentIndex:
    def __init__(self, extents):
        self.ext = sorted(extents, key=lambda e: (e[2], e[3]))
        self.starts = [e[2] for e in self.ext]

    def locate(self, offset):
        import bisect
        i = bisect.bisect_right(self.starts, offset) - 1
        best = None
        while i >= 0 and i > bisect.bisect_right(self.starts, offset) - 40:
            e = self.ext[i]
            if e[2] <= offset < e[3]:
                if best is None or (e[3] - e[2]) < (best[3] - best[2]):
                    best = e
            i -= 1
        return best


def diff_ranges(a, b, limit=64):
    """Byte ranges where two equal-length bytes objects differ (coalesced)."""
    out = []
    n = min(len(a), len(b))
    i = 0
    step = 1 << 16
    while i < n and len(out) < limit:
        j = min(n, i + step)
        if a[i:j] != b[i:j]:
            k = i
            while k < j and len(out) < limit:
                if a[k] != b[k]:
                    s = k
                    while k < j and a[k] != b[k]:
                        k += 1
                    if out and out[-1][1] >= s - 8:
                        out[-1] = (out[-1][0], k)
                    else:
                        out.append((s, k))
                else:
                    k += 1
        i = j
    return out


def exact_fill_ops(level, blocks=1, extra=2):
    """Plain-ISO directory whose records fill `blocks` sectors exactly (no Rock Ridge / XA):
    "." and ".." are 34 bytes each, 5-character identifiers give 38-byte and 7-character
    identifiers 40-byte records.  Then `extra` more files (spill into the next sector)."""
    need = 2048 * blocks - 68
    for a in range(0, 40):
        if (need - 38 * a) % 40 == 0 and need - 38 * a >= 0:
            b = (need - 38 * a) // 40
            break
    else:
        return None
    dname = '/FILL' if level < 4 else '/fill'
    ops = [{'op': 'add_directory', 'iso_path': dname}]
    cid = 7000
    for k in range(a):
        cid += 1
        ops.append({'op': 'add_fp', 'cid': cid, 'length': (k % 3) * 700, 'iso_path': '%s/%s.;1' % (dname, 'ABCDEFGHIJKLMNOPQRSTUVWXYZ'[k // 26] + 'ABCDEFGHIJKLMNOPQRSTUVWXYZ'[k % 26])})
    for k in range(b):
        cid += 1
        ops.append({'op': 'add_fp', 'cid': cid, 'length': (k % 4) * 300, 'iso_path': '%s/X%03d.;1' % (dname, k)})
    for k in range(extra):
        cid += 1
        ops.append({'op': 'add_fp', 'cid': cid, 'length': 10, 'iso_path': '%s/Z%03d.;1' % (dname, k)})
    return ops


def special_layout(g, which):
    """Deterministic layouts that random histories reach rarely.  Returns (cfg, ops)."""
    from harness.model import Cfg, join
    r = g.rng
    if which.startswith('exact-fill'):
        cfg = Cfg(level=r.choice([1, 2, 3]), joliet=r.choice([None, 3]), udf=r.random() < 0.3)
        ops = exact_fill_ops(cfg.level, blocks=r.choice([1, 2, 3]) if which == 'exact-fill-multi' else 1,
                             extra=0 if which in ('exact-fill', 'exact-fill-multi') else r.choice([1, 3]))
        if which == 'exact-fill-root':
            # the root directory itself filled exactly: 45 eleven-character identifiers (34+34+45*44)
            ops = [{'op': 'add_fp', 'cid': 7500 + k, 'length': 5 * k, 'iso_path': '/FILE%04d.;1' % k} for k in range(45)]
            if r.random() < 0.5:
                ops.append({'op': 'add_directory', 'iso_path': '/ZDIR'})
        return cfg, ops
    if which == 'udf-big-dir':
        cfg = Cfg(level=r.choice([1, 3]), udf=True, joliet=r.choice([None, 3]), rr=r.choice([None, '1.09']))
        ops = [{'op': 'add_directory', 'udf_path': '/many'}]
        n = r.choice([45, 70, 130])
        for k in range(n):
            ops.append({'op': 'add_fp', 'cid': 7600 + k, 'length': r.choice([0, 1, 100]), 'udf_path': '/many/' + 'n%03d-' % k + 'x' * r.choice([5, 30, 60])})
        for k in range(0, n, 3):
            if r.random() < 0.4:
                ops.append({'op': 'rm_file', 'udf_path': ops[1 + k]['udf_path']})
        if r.random() < 0.6:
            # land the end of the descriptor area just past a sector boundary (4..40 bytes into the
            # next sector): a descriptor straddling each boundary before it must have been carried over
            gone = {o['udf_path'] for o in ops if o['op'] == 'rm_file'}
            fid = lambda name: 4 * ((38 + 1 + len(name) + 3) // 4)
            total = 40 + sum(fid(o['udf_path'].rsplit('/', 1)[1]) for o in ops if o['op'] == 'add_fp' and o['udf_path'] not in gone)
            want = r.choice([4, 8, 20, 40])
            k = 0
            while True:
                need = (2048 - total % 2048) % 2048 + want
                if 44 <= need <= 280:
                    ln = need - 39 - r.choice([0, 0, 1, 2, 3])
                    nm = ('zz%02d-' % k + 'y' * 300)[:max(1, ln)]
                    if fid(nm) == need:
                        ops.append({'op': 'add_fp', 'cid': 7780 + k, 'length': 1, 'udf_path': '/many/' + nm})
                        break
                nm = 'zy%02d-' % k + 'y' * 95
                ops.append({'op': 'add_fp', 'cid': 7780 + k, 'length': 1, 'udf_path': '/many/' + nm})
                total += fid(nm)
                k += 1
                if k > 40:
                    break
        return cfg, ops
    if which == 'udf-many-files':
        # more than 256 sectors of small files: a file starts at every sector of the image's tail, also
        # at the one, 256 sectors before the end, that is reserved for an optional third anchor
        cfg = Cfg(level=r.choice([1, 3]), udf=True, joliet=r.choice([None, 3]), rr=r.choice([None, '1.09']))
        ops = []
        n = r.choice([258, 270, 300, 330])
        for k in range(n):
            o = {'op': 'add_fp', 'cid': 8700 + k, 'length': r.choice([1, 2048, 700, 2048, 2049]) if k % 7 else 2048, 'iso_path': '/M%04d.;1' % k}
            if k % 3 == 0:
                o['udf_path'] = '/m%04d' % k
            if cfg.rr:
                o['rr_name'] = 'm%04d' % k
            ops.append(o)
        if r.random() < 0.4:
            ops.append({'op': 'reopen', 'reuse': False})
            for k in range(r.choice([1, 5])):
                ops.append({'op': 'rm_file', 'iso_path': '/M%04d.;1' % r.randrange(n)})
        return cfg, ops
    if which == 'udf-exact-fill':
        # FIDs filling a sector exactly: parent FID 40 bytes, name n -> 38+1+n rounded to 4
        cfg = Cfg(level=3, udf=True)
        ops = [{'op': 'add_directory', 'udf_path': '/data'}]
        for k in range(40):                      # 6-character names: 38+7=45 -> 48 bytes
            ops.append({'op': 'add_fp', 'cid': 7800 + k, 'length': 1, 'udf_path': '/data/f%05d' % k})
        for k in range(2):                       # 2-character names: 38+3=41 -> 44 bytes
            ops.append({'op': 'add_fp', 'cid': 7850 + k, 'length': 1, 'udf_path': '/data/g%d' % k})
        if r.random() < 0.4:
            # one descriptor short of the boundary, so that the next one straddles or just fits
            ops.pop()
        for k in range(r.choice([1, 3])):
            # the entries that take the descriptor area into the next sector: every kind of entry
            kind = r.choice(['file', 'file', 'symlink', 'symlink', 'dir', 'link'])
            nm = '/data/h%05d' % k if r.random() < 0.6 else '/data/h%05d' % k + 'h' * r.choice([1, 2, 3, 40])
            if kind == 'file':
                ops.append({'op': 'add_fp', 'cid': 7860 + k, 'length': 1, 'udf_path': nm})
            elif kind == 'symlink':
                ops.append({'op': 'add_symlink', 'udf_symlink_path': nm, 'udf_target': r.choice(['f00000', '../data/g0', '/data/f00001'])})
            elif kind == 'dir':
                ops.append({'op': 'add_directory', 'udf_path': nm})
            else:
                ops.append({'op': 'add_hard_link', 'old': ('udf', '/data/f00000'), 'new': ('udf', nm)})
        return cfg, ops
    if which in ('shrink-subdir', 'grow-subdir'):
        # a non-root directory that has subdirectories grows over / shrinks below sector boundaries:
        # the '..' records of its subdirectories (and '.' of itself) must follow
        rr = r.choice([None, None, '1.09', '1.12'])
        cfg = Cfg(level=r.choice([1, 2, 3]), joliet=r.choice([None, 3]), rr=rr, udf=r.random() < 0.25)
        top = r.choice(['/D', '/P/D'])
        ops = []

        def mk(op, path, **kw):
            o = dict(op=op, iso_path=path, **kw)
            if rr and op in ('add_fp', 'add_directory'):
                o['rr_name'] = path.rsplit('/', 1)[1].split('.')[0].split(';')[0].lower()
            if cfg.joliet and op != 'rm_file' and r.random() < 0.7:
                o['joliet_path'] = path.lower().replace('.;1', '')
            return o
        made_j = set()
        if top == '/P/D':
            ops.append(mk('add_directory', '/P'))
        ops.append(mk('add_directory', top))
        subs = [top + '/A0', top + '/S1', top + '/S2', top + '/S1/T']   # sorting before and after the files
        n = r.choice([60, 100, 150])
        files = [top + '/F%03d.;1' % k for k in range(n)]
        if which == 'shrink-subdir':
            for sdir in subs:
                ops.append(mk('add_directory', sdir))
        for k, f in enumerate(files):
            ops.append(mk('add_fp', f, cid=7900 + k, length=r.choice([0, 7, 2048])))
        if which == 'grow-subdir':
            for sdir in subs:
                ops.append(mk('add_directory', sdir))
            for k in range(r.choice([0, 50])):
                ops.append(mk('add_fp', top + '/G%03d.;1' % k, cid=8100 + k, length=3))
        # a Joliet parent must exist for a Joliet child: drop joliet paths whose parent was not made
        for o in ops:
            jp = o.get('joliet_path')
            if jp:
                par = jp.rsplit('/', 1)[0]
                if par and par not in made_j:
                    del o['joliet_path']
                elif o['op'] == 'add_directory':
                    made_j.add(jp)
        if which == 'shrink-subdir':
            keep = r.choice([0, 10, 40])
            order = list(files)
            r.shuffle(order)
            for f in order[keep:]:
                ops.append({'op': 'rm_file', 'iso_path': f})
        return cfg, ops
    if which == 'joliet-exact-fill':
        # Joliet directory records (34 + 2 * characters bytes each, '.' and '..' 34) filling the
        # last sector of a directory exactly, one record short of it, or one record over
        cfg = Cfg(level=r.choice([1, 3]), joliet=r.choice([1, 2, 3]), rr=r.choice([None, '1.09']))
        blocks = r.choice([1, 1, 2])
        target = 2048 * blocks
        used = 68
        names = []
        k = 0
        while True:
            a = r.choice([20, 40, 59, 60, 64])
            if used + (34 + 2 * a) + 36 > target:
                break
            # records must not straddle a sector boundary: keep it simple, stay below the target
            names.append('n%02d' % k + 'x' * (a - 3))
            used += 34 + 2 * a
            k += 1
        rest = target - used
        if rest >= 36 and (rest - 34) % 2 == 0 and (rest - 34) // 2 <= 64:
            b_ = (rest - 34) // 2
            names.append('z' * b_)
        mode = r.choice(['exact', 'exact', 'spill', 'short'])
        if mode == 'spill':
            names.append('zz-extra')
        elif mode == 'short' and names:
            names.pop()
        top_j = r.choice(['/jfill', '/'])
        ops = []
        if top_j != '/':
            ops.append(dict({'op': 'add_directory', 'iso_path': '/JFILL', 'joliet_path': top_j}, **({'rr_name': 'jfill'} if cfg.rr else {})))
        for j, nm in enumerate(names):
            o = {'op': 'add_fp', 'cid': 8300 + j, 'length': r.choice([0, 9, 2048]), 'joliet_path': join(top_j, nm),
                 'iso_path': ('/JFILL' if top_j != '/' else '') + '/J%03d.;1' % j}
            if cfg.rr:
                o['rr_name'] = 'j%03d' % j
            ops.append(o)
        if r.random() < 0.4:
            ops.append({'op': 'add_directory', 'joliet_path': '/zdir-after'})
        return cfg, ops
    if which == 'many-dirs':
        # path tables crossing the 4096-byte step in which their extents are reserved (ISO9660: 10 + 16 per
        # 8-character directory -> 4090 bytes with 255, 4106 with 256; Joliet 10 + 24 each -> 170 / 171),
        # and coming back below it by removals; sometimes with copies of the PVD, which have to follow
        rr = r.choice([None, '1.09'])
        cfg = Cfg(level=r.choice([1, 3]), joliet=r.choice([None, 3]), rr=rr)
        ops = []
        ndup = r.choice([0, 1, 2, 2])
        for _k in range(ndup if r.random() < 0.5 else 0):
            ops.append({'op': 'duplicate_pvd'})
        early = len(ops) > 0
        n = r.choice([254, 255, 256, 258, 300] if not cfg.joliet or r.random() < 0.5 else [169, 170, 171, 173, 200])
        flat = r.random() < 0.7
        made = []
        for k in range(n):
            par = '' if flat or k < 8 else made[k % 8]
            o = {'op': 'add_directory', 'iso_path': '%s/D%07d' % (par, k)}
            if rr:
                o['rr_name'] = 'd%07d' % k
            if cfg.joliet and (not par or (par.lower() in [m.lower() for m in made[:8]])):
                o['joliet_path'] = ('%s/d%07d' % (par, k)).lower()
            ops.append(o)
            made.append(o['iso_path'])
        if not early:
            for _k in range(ndup):
                ops.append({'op': 'duplicate_pvd'})
        if r.random() < 0.4:
            ops.append({'op': 'reopen', 'reuse': False})
            for k in range(r.choice([0, 2, 40])):
                ops.append(dict({'op': 'add_directory', 'iso_path': '/E%07d' % k}, **({'rr_name': 'e%07d' % k} if rr else {})))
        leafs = [m for m in made if flat or m not in made[:8]]
        r.shuffle(leafs)
        for m in leafs[:r.choice([0, 1, 3, 6, 20])]:
            ops.append({'op': 'rm_directory', 'iso_path': m})
        return cfg, ops
    if which == 'reloc-spill':
        # the directory at depth 7 packed to the brim (probing the live object for its length), so
        # that the placeholder of a relocated child (or one further entry) is the record that takes
        # it into another sector
        cfg = g.cfg(require=lambda c: c.rr is not None and c.level < 4)
        h = History(cfg, r.randrange(1 << 30), 'std')
        path = ''
        for d in range(7):
            path += '/P%d' % d
            h.apply({'op': 'add_directory', 'iso_path': path, 'rr_name': 'p%d' % d})
        sectors = r.choice([1, 1, 2])

        def dirlen():
            try:
                return h.sess.iso.get_record(iso_path=path).data_length
            except Exception:
                return None
        k = 0
        for nmlen in (r.choice([8, 30, 90]), 20, 8, 3, 1):
            while k < 200 and dirlen() is not None:
                op = {'op': 'add_fp', 'cid': 8600 + k, 'length': r.choice([0, 5]), 'iso_path': '%s/F%03d.;1' % (path, k), 'rr_name': ('f%03d' % k + 'n' * 200)[:max(4, nmlen)]}
                k += 1
                if not h.apply(op).ok:
                    break
                if dirlen() is not None and dirlen() > 2048 * sectors:
                    h.apply({'op': 'rm_file', 'iso_path': op['iso_path']})
                    break
        deep = {'op': 'add_directory', 'iso_path': path + '/DEEP', 'rr_name': r.choice(['deep', 'deep-' + 'd' * 60])}
        if cfg.udf and r.random() < 0.5:
            deep['udf_path'] = '/deep'
        h.apply(deep)
        if r.random() < 0.5:
            h.apply({'op': 'add_fp', 'cid': 8590, 'length': 77, 'iso_path': path + '/DEEP/IN.;1', 'rr_name': 'in'})
        if r.random() < 0.3:
            h.apply({'op': 'rm_directory', 'iso_path': path + '/DEEP'} if not deep.get('udf_path') else {'op': 'rm_directory', 'iso_path': path + '/DEEP', 'udf_path': '/deep'})
        ops = [dict(o) for o in h.ops]
        h.sess.close()
        return cfg, ops
    if which == 'deep-reloc':
        # Rock Ridge relocation: directories to depth 8..12, same-named twins, custom relocation name
        from harness.props import c08
        cfg = g.cfg(require=lambda c: c.rr is not None and c.level < 4)
        h = c08.deep_history(g, cfg, r.randrange(1 << 30))
        ops = [dict(o) for o in h.ops]
        h.sess.close()
        for o in ops:
            # content ids outside the range the caller's generator hands out afterwards
            if isinstance(o.get('cid'), int):
                o['cid'] += 9000
        return cfg, ops
    raise ValueError(which)


SPECIALS = ['exact-fill', 'udf-big-dir', 'udf-exact-fill', 'exact-fill-root', 'exact-fill-multi', 'exact-fill-spill',
            'shrink-subdir', 'grow-subdir', 'deep-reloc', 'joliet-exact-fill', 'many-dirs', 'reloc-spill', 'udf-many-files']
