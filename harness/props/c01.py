"""C01 Mastering fidelity: what was put in is what a reopened image shows.

Oracle: reference model vs. the API view (walk / get_record /
get_file_from_iso_fp) of the *reopened* image in every carried namespace.
"""
from harness import driver, env
from harness.gen import Gen
from harness.model import Cfg
from harness.props import common

PROPERTY = 'C01'
LEVEL = 'exploration'
RULE = ('random accepted edit histories (add_fp/add_directory/rm_file/rm_hard_link/add_hard_link/rm_directory/'
        'add_symlink/set_hidden/duplicate_pvd; 5 profiles) over all 256 configurations (stratified by case index); '
        'write_fp, open_fp of the bytes, API view per namespace vs. reference model. distinct = hash of '
        '(configuration, operation-kind sequence with namespace spread); non-trivial = history has an accepted '
        'removal or hard link and the image carries >= 2 namespaces or a directory with >= 20 entries; cases 0/1 '
        'are >4 GiB multi-extent files on a virtual disk')
ASSUMPTIONS = ['determinism shim (virtual clock, seeded random, counter uuid4)',
               'reference model implements the documented semantics (DESIGN.md appendix A)',
               'the API view uses only public calls']
REQUIRED_COUNTERS = {'api:open_fp:ok': 1, 'view_entries': 10}


def plan(tier):
    return 2000 if tier == "quick" else 40000


def check_history(cfg, ops, seed, counters=None, big=False):
    """Replay ops on a fresh image, write, reopen, compare.  Returns violations."""
    vio = []
    sess = driver.replay(cfg, ops, seed)
    refused = [(o, oc) for o, oc in sess.ops if not oc.ok]
    if refused:
        # replay documents only hold accepted ops; a refusal here means the
        # library is not deterministic w.r.t. the recorded history
        vio.append({'key': 'replay-diverged', 'detail': 'op %r refused on replay: %s' % (refused[0][0]['op'], refused[0][1].summary())})
        return vio, None
    img, oc = sess.write(virtual=big)
    if not oc.ok:
        vio.append({'key': 'write-raises:%s@%s' % (oc.exc_class, oc.exc_where), 'detail': oc.exc_msg})
        return vio, None
    s2, oc = sess.reopen(img)
    if not oc.ok:
        vio.append({'key': 'reopen-raises:%s@%s' % (oc.exc_class, oc.exc_where), 'detail': oc.exc_msg})
        return vio, img
    for key, detail in common.compare_views(s2.model, s2.iso, counters=counters):
        vio.append({'key': key, 'detail': detail})
    s2.close()
    sess.close()
    return vio, img


def dedup(vio):
    seen = {}
    for v in vio:
        seen.setdefault(v['key'], v)
    return list(seen.values())


def big_case(i, seed):
    """>4 GiB file: ISO level 3 (multi-extent records) or UDF."""
    cfg = Cfg(level=3, joliet=3 if i == 0 else None, rr='1.09' if i == 0 else None, udf=(i % 2 == 1))
    length = (1 << 32) + 4096 * (i + 1) + 17
    ops = [{'op': 'add_directory', 'iso_path': '/DIR1'}]
    if cfg.rr:
        ops[0]['rr_name'] = 'dir1'
    big = {'op': 'add_fp', 'cid': 900 + i, 'length': length, 'iso_path': '/DIR1/BIG.DAT;1'}
    if cfg.rr:
        big['rr_name'] = 'big.dat'
    if cfg.joliet:
        big['joliet_path'] = '/big.dat'
    if cfg.udf:
        big['udf_path'] = '/big.dat'
    small = {'op': 'add_fp', 'cid': 950 + i, 'length': 3000, 'iso_path': '/SMALL.DAT;1'}
    if cfg.rr:
        small['rr_name'] = 'small.dat'
    ops += [big, small]
    return cfg, ops


def run_case(i, seed, tier):
    counters = {}
    nbig = 2 if tier == 'quick' else 24
    if i < nbig:
        cfg, ops = big_case(i, seed)
        vio, img = check_history_big(cfg, ops, seed, counters)
        return {'verdict': 'violated' if vio else 'held', 'violations': [dict(v, replay=common.replay_doc(PROPERTY, cfg, ops, seed, big=True)) for v in dedup(vio)],
                'nontrivial': True, 'shape': 'big-%d' % i, 'sample': {'cfg': cfg.to_json(), 'ops': common.short_ops(ops), 'image_bytes': len(img) if img is not None else None},
                'counters': counters}
    g = Gen(seed * 1000003 + i)
    cfg = g.cfg(index=i + seed * 7)
    profile = common.PROFILES[i % len(common.PROFILES)]
    if i % 40 in (7, 27):
        # directory records filling their sector(s) exactly, with and without spill-over
        from harness.model import Cfg
        cfg = Cfg(level=g.rng.choice([1, 2, 3]), joliet=g.rng.choice([None, 3]))
        ops = common.exact_fill_ops(cfg.level, blocks=g.rng.choice([1, 1, 2, 3]), extra=g.rng.choice([0, 0, 1, 3]))
        if i % 40 == 27:
            # the other layouts at sector / path-table / descriptor-area boundaries
            cfg, ops = common.special_layout(g, common.SPECIALS[(i // 40) % len(common.SPECIALS)])
        h = common.History(cfg, seed * 1000003 + i, 'std')
        for op in ops:
            h.apply(op)
        if g.rng.random() < 0.5:
            h.extend(g.rng.choice([2, 6]))
        ops = list(h.ops)
        h.sess.close()
        vio, img = check_history(cfg, ops, seed * 1000003 + i, counters)
        counters['exact_fill_cases'] = 1
        return {'verdict': 'violated' if vio else 'held',
                'violations': [dict(v, replay=common.replay_doc(PROPERTY, cfg, ops, seed * 1000003 + i)) for v in dedup(vio)],
                'nontrivial': True, 'shape': 'exact-fill/%s/%d' % (cfg.key(), len(ops)),
                'sample': {'cfg': cfg.to_json(), 'profile': 'exact-fill', 'n_ops': len(ops)}, 'counters': counters}
    nops = g.rng.choice([3, 6, 10, 15, 22, 30]) if tier == 'quick' else g.rng.choice([4, 10, 20, 30, 45, 60])
    if i % 40 == 23:
        # Rock Ridge relocation: directories to depth 8..12, twins of one name, custom relocation name
        from harness.props import c08
        cfg = g.cfg(index=i + seed * 7, require=lambda c: c.rr is not None and c.level < 4)
        h = c08.deep_history(g, cfg, seed * 1000003 + i)
        profile = 'deep'
        counters['deep_cases'] = 1
    else:
        h = common.History(cfg, seed * 1000003 + i, profile)
        h.extend(nops)
    ops = list(h.ops)
    h.sess.close()
    if i % 40 == 31:
        # the object is used for another image first (another configuration, queried and mastered),
        # then closed; the image under test is made in the same object
        g0 = Gen(seed * 1000003 + i + 7)
        cfg0 = g0.cfg()
        h0 = common.History(cfg0, seed * 1000003 + i + 7, 'std')
        h0.extend(g0.rng.choice([3, 8]))
        ops0 = list(h0.ops)
        h0.sess.close()
        first_cfg, cfg_under_test = cfg0, cfg
        ops = ops0 + [{'op': 'q_walk', 'key': 'iso_path', 'path': '/'}, {'op': 'q_write'}, {'op': 'renew', 'cfg': cfg_under_test.to_json()}] + ops
        cfg = first_cfg
        counters['reused_object_cases'] = 1
    if i % 5 == 3:
        # a clock that runs while the image is edited and mastered (every reading one second later)
        ops = [{'op': 'clock_tick', 'seconds': 1}] + ops
        counters['running_clock_cases'] = 1
    counters['refused_by_library'] = len(h.refused)
    vio, img = check_history(cfg, ops, seed * 1000003 + i, counters)
    names = [o['op'] for o in ops]
    nt = any(n in ('rm_file', 'rm_hard_link', 'add_hard_link', 'rm_directory') for n in names) and \
        (len(cfg.namespaces()) >= 2 or len(ops) >= 20)
    res = {'verdict': 'violated' if vio else 'held',
           'violations': [dict(v, replay=common.replay_doc(PROPERTY, cfg, ops, seed * 1000003 + i)) for v in dedup(vio)],
           'nontrivial': nt, 'shape': common.shape_of(cfg, ops),
           'sample': {'cfg': cfg.to_json(), 'profile': profile, 'ops': common.short_ops(ops, 12), 'n_ops': len(ops),
                      'refused': [r[1] for r in h.refused][:3]},
           'counters': counters}
    return res


def check_history_big(cfg, ops, seed, counters):
    from harness import apiview
    vio = []
    sess = driver.replay(cfg, ops, seed)
    for o, oc in sess.ops:
        if not oc.ok:
            vio.append({'key': 'big:refused:%s' % oc.sig(), 'detail': oc.summary()})
            return vio, None
    img, oc = sess.write(virtual=True, blocksize=1 << 20)
    if not oc.ok:
        vio.append({'key': 'write-raises:%s@%s' % (oc.exc_class, oc.exc_where), 'detail': oc.exc_msg})
        return vio, None
    counters['big_bytes_written'] = img.size
    s2, oc = sess.reopen(img)
    if not oc.ok:
        vio.append({'key': 'reopen-raises:%s@%s' % (oc.exc_class, oc.exc_where), 'detail': oc.exc_msg})
        return vio, img
    m = s2.model
    for ns in cfg.namespaces():
        expect = {}
        mv = m.view(ns)
        for p, e in mv.items():
            if e[0] == 'file' and e[2] is not None and m.contents[e[2]].length > (8 << 20):
                expect[p] = (e[2], m.contents[e[2]].length)
        try:
            av = apiview.view(s2.iso, ns, expect=expect)
        except Exception as e:
            vio.append({'key': 'view:%s:walk-raises:%s' % (ns, type(e).__name__), 'detail': str(e)})
            continue
        counters['view_entries'] = counters.get('view_entries', 0) + len(av)
        for p in set(mv) ^ set(av):
            vio.append({'key': 'view:%s:%s' % (ns, 'missing' if p in mv else 'extra'), 'detail': p})
        for p in set(mv) & set(av):
            me, ae = mv[p], av[p]
            if me[0] != ae[0]:
                vio.append({'key': 'view:%s:kind' % ns, 'detail': p})
            elif me[0] == 'file' and me[2] is not None:
                c = m.contents[me[2]]
                if isinstance(ae[2], tuple):
                    if ae[2][0] != 'pattern' or ae[2][2] != c.length:
                        vio.append({'key': 'view:%s:bytes%s' % (ns, ':multi-extent' if c.length > 0xfffff800 else ''), 'detail': '%s %r expected %d bytes of cid %s' % (p, ae[2], c.length, me[2])})
                elif c.length > (8 << 20):
                    vio.append({'key': 'view:%s:bytes' % ns, 'detail': '%s: API reports length %r for a %d-byte file' % (p, ae[1], c.length)})
                elif ae[2] != c.bytes():
                    vio.append({'key': 'view:%s:bytes' % ns, 'detail': p})
    s2.close()
    sess.close()
    return vio, img


def replay(doc):
    cfg, ops, seed = common.doc_cfg_ops(doc)
    if doc.get('big'):
        vio, _ = check_history_big(cfg, ops, seed, {})
    else:
        vio, _ = check_history(cfg, ops, seed)
    return dedup(vio)
