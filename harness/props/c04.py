"""C04 Sector allocation is sound: no overlap, in bounds, exact size, shared iff
linked, no byte written twice."""
from harness import driver, env
from harness.gen import Gen
from harness.props import common

PROPERTY = 'C04'
LEVEL = 'exploration'
RULE = ('grow/shrink churn histories (directories, path tables, continuation blocks, UDF partition; also reopen-then-remove) in all '
        'configurations; every written image: union of the extent maps of the independent ECMA-119/SUSP/UDF/El Torito/hybrid decoders '
        'checked pairwise for overlap and containment in the declared volume size, image length vs. declared size, data extents shared '
        'iff the model says the names are links of one content, and the (offset,length) write sequence seen by the output proxy checked '
        'for double writes and writes beyond the declared size. distinct = (configuration, op-kind sequence) hash; non-trivial = some '
        'directory or the path table changed its sector count (grow or shrink) during the history')
ASSUMPTIONS = ['independent decoders are the trusted readers', 'the model decides which names are links of one content']
REQUIRED_COUNTERS = {'extents_checked': 100, 'writes_observed': 100}

EXCLUSIVE_SECTOR_KINDS = None


def plan(tier):
    return 1200 if tier == "quick" else 30000


# second workload: the images the repository's own tests master (harness/suite.py); without a model
# two extents may coincide only if they are the same extent (names of one content, the boot
# catalog read as a file, the enhanced descriptor's view of the PVD's structures)
SUITE_TIERS = ('quick', 'thorough')


def suite_oracle(data):
    dec = common.decode_all(data)
    ecma = dec['ecma']
    if ecma.pvd is None:
        return [{'key': 'decode:no-pvd', 'detail': str(ecma.problems[:2])}]
    vio = []
    declared = ecma.space_size * 2048
    if len(data) < declared:
        vio.append({'key': 'length:short', 'detail': 'image %d bytes, declared %d' % (len(data), declared)})
    elif len(data) > declared and not dec['hybrid'].present:
        vio.append({'key': 'length:long', 'detail': 'image %d bytes, declared %d' % (len(data), declared)})
    items = []
    for kind, ident, s, e in common.full_extent_map(dec):
        if e <= s or kind == 'enh-dir' or kind.startswith('enh-ptable') or kind == 'enh-data' or kind in ('mbr', 'gpt-hdr', 'gpt-array', 'apm'):
            continue
        items.append((s, e, kind, ident))
        if e > declared and not kind.startswith('udf-avdp'):
            vio.append({'key': 'oob:%s' % kind, 'detail': '%s %s occupies %d..%d beyond the declared %d bytes' % (kind, ident, s, e, declared)})
    items.sort()
    active = []
    for it in items:
        active = [a for a in active if a[1] > it[0]]
        for a in active:
            shared = (a[0], a[1]) == (it[0], it[1]) and all(k.endswith('-data') or k == 'boot-catalog' for k in (a[2], it[2]))
            if not shared:
                vio.append({'key': 'overlap:%s x %s' % tuple(sorted((a[2], it[2]))), 'detail': '%s %s (%d..%d) overlaps %s %s (%d..%d)' % (a[2], a[3], a[0], a[1], it[2], it[3], it[0], it[1])})
        active.append(it)
    return vio


def check_image(tracer, model, counters):
    vio = []
    data = tracer if tracer.virtual else tracer.getvalue()
    dec = common.decode_all(data)
    ecma = dec['ecma']
    if ecma.pvd is None:
        return [{'key': 'decode:no-pvd', 'detail': str(ecma.problems[:2])}]
    declared = ecma.space_size * 2048
    size = len(data)
    hyb = dec['hybrid']
    if hyb.present:
        if size < declared:
            vio.append({'key': 'length:short', 'detail': 'image %d bytes, declared %d' % (size, declared)})
    else:
        if size < declared:
            vio.append({'key': 'length:short', 'detail': 'image %d bytes, declared %d' % (size, declared)})
        elif size > declared:
            vio.append({'key': 'length:long', 'detail': 'image %d bytes, declared %d' % (size, declared)})
    ext = common.full_extent_map(dec)
    counters['extents_checked'] = counters.get('extents_checked', 0) + len(ext)
    # group data extents by (start,end); everything else must be disjoint
    cid_of = {}
    for ns, vol in (('iso', ecma.pvd), ('joliet', ecma.joliet)):
        if vol is None:
            continue
    # relocated directories: physical location (in the relocation directory) -> the place of the
    # CL placeholder, which is the path the edits used
    reloc = {}
    rr = dec.get('susp')
    if rr is not None and getattr(rr, 'present', False) and rr.holder:
        by_extent = {info.extent: p for p, info in ecma.pvd.dirs.items()}
        for path, e in rr.entries.items():
            if e.cl is not None and by_extent.get(e.cl) is not None:
                reloc[by_extent[e.cl]] = path

    def logical(ident):
        for phys in sorted(reloc, key=len, reverse=True):
            if isinstance(ident, str) and ident.startswith(phys + '/'):
                return reloc[phys] + ident[len(phys):]
        return ident

    def cid_for(kind, ident):
        ns = {'iso-data': 'iso', 'joliet-data': 'joliet', 'udf-data': 'udf', 'enh-data': 'iso'}.get(kind)
        if ns is None:
            return None
        if ns == 'iso':
            ident = logical(ident)
        node = model.ns[ns].get(ident)
        if node is None:
            return ('?', kind, ident)
        if node.kind == 'symlink':
            return ('symlink', ns, ident)
        return ('cid', node.cid)
    items = []
    for kind, ident, s, e in ext:
        if e <= s:
            continue
        if kind == 'enh-dir' or kind.startswith('enh-ptable') or kind == 'enh-data':
            continue   # the enhanced descriptor shares the PVD's structures by design
        if kind in ('mbr', 'gpt-hdr', 'gpt-array', 'apm'):
            continue   # system area / hybrid tail live outside the volume's sectors
        owner = None
        if kind.endswith('-data'):
            owner = cid_for(kind, ident)
        elif kind == 'boot-catalog':
            owner = ('cid', 'catalog')
        if kind == 'udf-data' and isinstance(ident, str) and owner and owner[0] == '?':
            owner = ('udf', ident)
        items.append((s, e, kind, ident, owner))
        if e > declared and not kind.startswith('udf-avdp'):
            vio.append({'key': 'oob:%s' % kind, 'detail': '%s %s occupies %d..%d beyond the declared %d bytes' % (kind, ident, s, e, declared)})
    items.sort(key=lambda t: (t[0], t[1]))
    active = []
    for it in items:
        s, e, kind, ident, owner = it
        active = [a for a in active if a[1] > s]
        for a in active:
            if a[4] is not None and owner is not None and a[4] == owner and a[4][0] == 'cid':
                if (a[0], a[1]) != (s, e):
                    vio.append({'key': 'share:linked-partial', 'detail': '%s %s and %s %s are one content but occupy %d..%d vs %d..%d' % (a[2], a[3], kind, ident, a[0], a[1], s, e)})
                continue
            if a[2] == 'boot-catalog' and owner == ('cid', 'catalog') or (a[4] == ('cid', 'catalog') and kind == 'boot-catalog'):
                continue
            vio.append({'key': 'overlap:%s x %s' % tuple(sorted((a[2], kind))), 'detail': '%s %s (%d..%d) overlaps %s %s (%d..%d)' % (a[2], a[3], a[0], a[1], kind, ident, s, e)})
        active.append(it)
    # linked names must share
    by_owner = {}
    for s, e, kind, ident, owner in items:
        if owner is not None and owner[0] == 'cid' and owner[1] is not None and kind != 'boot-catalog':
            by_owner.setdefault(owner, set()).add((s, e))
    for owner, places in by_owner.items():
        if len(places) > 1:
            vio.append({'key': 'share:linked-unshared', 'detail': 'content %r is stored at %s' % (owner[1], sorted(places)[:3])})
    # write sequence
    counters['writes_observed'] = counters.get('writes_observed', 0) + tracer.n_writes
    idx = common.ExtentIndex(ext)
    for (s, e) in tracer.rewrites:
        if e - s == 1 and s == declared - 1:
            continue   # documented final pad byte
        hit = idx.locate(s)
        if hit is not None and hit[0].endswith('-data'):
            off = s - hit[2]
            if off == 8 and e - s <= 56:
                continue   # documented boot-info-table patch
        if hyb.present and s >= declared:
            continue   # hybrid tail: backup GPT written over the cylinder padding
        kind = hit[0] if hit else ('system-area' if s < 32768 else 'unmapped')
        vio.append({'key': 'rewrite:%s' % kind, 'detail': 'bytes %d..%d written twice by write_fp' % (s, e)})
    if tracer.max_end if hasattr(tracer, 'max_end') else False:
        pass
    end = tracer.ranges[-1][1] if tracer.ranges else 0
    if end > declared and not hyb.present:
        vio.append({'key': 'write-beyond:declared', 'detail': 'write_fp wrote up to byte %d, declared %d' % (end, declared)})
    return vio


def check(cfg, ops, seed, counters=None, reopen_at=None, ops2=None):
    from harness.props import c01
    counters = counters if counters is not None else {}
    vio = []
    sess = driver.replay(cfg, ops, seed)
    img, oc = sess.write()
    if not oc.ok:
        return [{'key': 'write-raises:%s@%s' % (oc.exc_class, oc.exc_where), 'detail': oc.exc_msg}]
    vio += check_image(img, sess.model, counters)
    if ops2:
        s2, oc = sess.reopen(img.getvalue())
        if not oc.ok:
            vio.append({'key': 'reopen-raises:%s@%s' % (oc.exc_class, oc.exc_where), 'detail': oc.exc_msg})
        else:
            for op in ops2:
                s2.step(op)
            img2, oc = s2.write()
            if not oc.ok:
                vio.append({'key': 'write-raises:%s@%s' % (oc.exc_class, oc.exc_where), 'detail': 'second generation: %s' % oc.exc_msg})
            else:
                for v in check_image(img2, s2.model, counters):
                    v['detail'] = 'after reopen+edits: ' + v['detail']
                    vio.append(v)
            s2.close()
    sess.close()
    return c01.dedup(vio)


def run_case(i, seed, tier):
    if i >= plan(tier):
        from harness import suite
        return suite.run_slot(PROPERTY, i - plan(tier), suite_oracle)
    counters = {}
    g = Gen(seed * 1000003 + i)
    cfg = g.cfg(index=i + seed * 19)
    profile = ['churn', 'grow', 'names', 'churn', 'links', 'std'][i % 6]
    nops = g.rng.choice([8, 15, 30, 45]) if tier == 'quick' else g.rng.choice([10, 30, 60, 100])
    h = common.History(cfg, seed * 1000003 + i, profile, max_size=6000)
    if i % 8 == 1:
        h.sess.close()
        cfg, sops = common.special_layout(g, common.SPECIALS[(i // 8) % len(common.SPECIALS)])
        h = common.History(cfg, seed * 1000003 + i, 'churn', max_size=6000)
        for op in sops:
            h.apply(op)
        h.extend(g.rng.choice([0, 4]))
        profile = 'special'
    elif i % 16 == 5:
        # hybrid images (MBR, GPT and its backup behind the volume, cylinder padding)
        from harness.props import c12
        h.sess.close()
        cfg, hops = c12.build(seed * 1000003 + i, valid_only=True)
        h = common.History(cfg, seed * 1000003 + i, 'churn', max_size=6000)
        for op in hops:
            h.apply(op)
        profile = 'hybrid'
        counters['hybrid_cases'] = 1
    else:
        h.extend(nops)
    ops = list(h.ops)
    ops2 = None
    if i % 3 == 0:
        # second generation: reopen then mostly remove
        img, oc = h.sess.write()
        if oc.ok:
            s2, oc2 = h.sess.reopen(img.getvalue())
            if oc2.ok:
                g2 = Gen(seed * 7 + i, 'churn')
                g2.uniq = h.gen.uniq + 1000
                g2.next_cid = h.gen.next_cid + 1000
                ops2 = []
                for _ in range(g.rng.choice([3, 8, 15])):
                    op = g2.gen_op(s2.model)
                    out = s2.step(op)
                    if out.ok:
                        ops2.append(op)
                    else:
                        break
                s2.close()
    h.sess.close()
    vio = check(cfg, ops, seed * 1000003 + i, counters, ops2=ops2)
    names = [o['op'] for o in ops + (ops2 or [])]
    nt = names.count('add_fp') + names.count('add_directory') >= 8 and any(n.startswith('rm_') for n in names)
    return {'verdict': 'violated' if vio else 'held',
            'violations': [dict(v, replay=common.replay_doc(PROPERTY, cfg, ops, seed * 1000003 + i, ops2=driver.ops_to_json(ops2 or []))) for v in vio],
            'nontrivial': nt, 'shape': common.shape_of(cfg, ops + (ops2 or [])),
            'sample': {'cfg': cfg.to_json(), 'profile': profile, 'n_ops': len(ops), 'n_ops_after_reopen': len(ops2 or []), 'ops': common.short_ops(ops, 6)},
            'counters': counters}


def replay(doc):
    if doc.get('suite_image'):
        from harness import suite
        return suite.replay(doc, suite_oracle)
    cfg, ops, seed = common.doc_cfg_ops(doc)
    ops2 = driver.ops_from_json(doc.get('ops2') or [])
    return check(cfg, ops, seed, ops2=ops2 or None)
