"""C15 Hostile or damaged images: open terminates with a documented error."""
import io
import random
import signal
import struct
import tracemalloc

from harness import driver, env, monitors
from harness.gen import Gen
from harness.model import Cfg
from harness.props import common

PROPERTY = 'C15'
LEVEL = 'fault_enumeration'
RULE = ('seed images of 9 classes (plain, Joliet+Rock Ridge with continuation areas and symlinks, level 4 + XA, UDF bridge, El Torito '
        'multi-section + boot info table, isohybrid, deep relocated Rock Ridge, multi-sector directories, reopened/edited) x faults: '
        'truncation at and inside structure boundaries; for bytes inside structural sectors found by the independent decoders '
        '(descriptors, path tables, directory and continuation sectors, boot catalog, UDF descriptors/file entries/identifiers) 1/2/4-byte '
        'fields overwritten with {0, 1, max, max-1, sign bit, own sector, parent/other structure sector, beyond EOF}; random multi-byte '
        'corruption; sector swaps/duplication. Each case: PyCdlib().open_fp(BytesIO) under a sys.monitoring step budget '
        '(function entries + loop back-edges <= 4*len+200000, raises inside the parser when exhausted), input-bytes budget, tracemalloc '
        'budget on a 1/16 sample, SIGALRM watchdog (inconclusive only). distinct = (seed class, fault kind, structure kind, value class); '
        'non-trivial = the fault hits a structural sector (not file data)')
ASSUMPTIONS = ['documented exception types = PyCdlibInvalidISO, PyCdlibInvalidInput, PyCdlibInternalError (docs/exceptions.md)',
               'budgets are logical (steps, bytes, traced memory), never wall clock']
REQUIRED_COUNTERS = {'opens_attempted': 1000, 'outcome:documented-error': 100, 'outcome:opened': 10}
DOCUMENTED = ('PyCdlibInvalidISO', 'PyCdlibInvalidInput', 'PyCdlibInternalError')

_seeds = {}
MON = monitors.StepMonitor()


class Watchdog(BaseException):
    pass


def _alarm(signum, frame):
    raise Watchdog()


def plan(tier):
    return 24000 if tier == "quick" else 400000


def boot_blob(n, sig=True):
    b = bytearray(random.Random(n).randbytes(n))
    if sig and n >= 0x44:
        b[0x40:0x44] = b'\xfb\xc0\x78\x70'
    return bytes(b)


def build_seed(k):
    """Returns (name, bytes, structural byte ranges [(kind, start, end)])."""
    env.reset(k)
    g = Gen(1000 + k, 'grow')
    if k == 0:
        cfg = Cfg(1)
    elif k == 1:
        cfg = Cfg(3, joliet=3, rr='1.09')
    elif k == 2:
        cfg = Cfg(4, joliet=1, rr='1.12', xa=True)
    elif k == 3:
        cfg = Cfg(3, rr='1.10', udf=True)
    elif k == 4:
        cfg = Cfg(2, joliet=3, rr='1.09', udf=True)
    elif k == 5:
        cfg = Cfg(1, joliet=3)
    elif k == 6:
        cfg = Cfg(3, rr='1.09')
    elif k == 7:
        cfg = Cfg(3, joliet=3, rr='1.12', udf=True)
    elif k == 9:
        cfg = Cfg(3)
    elif k == 10:
        cfg = Cfg(3, rr='1.09')
    else:
        cfg = Cfg(2, rr='1.09', joliet=2)
    h = common.History(cfg, 1000 + k, 'grow', max_size=3000)
    if k == 9:
        # sibling directories A01..A16 with two sub-directories each: the raw material for a
        # hostile directory graph without cycles (see the 'dag' fault)
        for a in range(1, 17):
            h.apply({'op': 'add_directory', 'iso_path': '/A%02d' % a})
            h.apply({'op': 'add_directory', 'iso_path': '/A%02d/X' % a})
            h.apply({'op': 'add_directory', 'iso_path': '/A%02d/Y' % a})
    h.gen.uniq = 0
    n = [25, 40, 30, 35, 30, 20, 20, 60, 90, 3, 12][k]
    if k == 6:
        # deep relocated tree
        p = ''
        for d in range(1, 11):
            p += '/D%d' % d
            h.apply({'op': 'add_directory', 'iso_path': p, 'rr_name': 'dir%d' % d})
            h.apply({'op': 'add_fp', 'cid': 500 + d, 'length': 100 * d, 'iso_path': p + '/F%d.;1' % d, 'rr_name': 'file%d' % d})
    h.extend(n)
    if k in (4, 5, 10):
        # El Torito (+ isohybrid for 5)
        h.apply({'op': 'add_fp', 'cid': 700, 'length': 2048, 'data': boot_blob(2048), 'iso_path': '/BOOT.;1',
                 **({'rr_name': 'boot'} if cfg.rr else {}), **({'joliet_path': '/boot'} if cfg.joliet else {}), **({'udf_path': '/boot'} if cfg.udf else {})})
        # (seed 4: the boot catalog under the smallest identifier there is, so that its record is the
        # first one met in the root directory)
        h.apply(dict({'op': 'add_eltorito', 'bootfile_path': '/BOOT.;1', 'boot_load_size': 4, 'boot_info_table': k == 4},
                     **({'bootcatfile': '/0.;1', 'rr_bootcatname': 'cat0', 'joliet_bootcatfile': '/0cat'} if k == 4 else {})))
        h.apply({'op': 'add_fp', 'cid': 701, 'length': 5000, 'data': boot_blob(5000), 'iso_path': '/BOOT2.;1',
                 **({'rr_name': 'boot2'} if cfg.rr else {}), **({'joliet_path': '/boot2'} if cfg.joliet else {}), **({'udf_path': '/boot2'} if cfg.udf else {})})
        h.apply({'op': 'add_eltorito', 'bootfile_path': '/BOOT2.;1', 'platform_id': 0xef, 'efi': True})
        if k == 4:
            # further sections: several section headers, the last one marked final
            for j, plat in enumerate([0, 0xef, 1]):
                h.apply({'op': 'add_fp', 'cid': 710 + j, 'length': 2048, 'data': boot_blob(2048), 'iso_path': '/BOOTX%d.;1' % j,
                         **({'rr_name': 'bootx%d' % j} if cfg.rr else {})})
                h.apply({'op': 'add_eltorito', 'bootfile_path': '/BOOTX%d.;1' % j, 'platform_id': plat})
        if k == 5:
            h.apply({'op': 'add_isohybrid', 'efi': True})
        if k == 10:
            # one 512-byte sector per cylinder: more than 1024 cylinders (the MBR's end cylinder is
            # saturated, its two high bits live in the end-sector byte)
            h.apply({'op': 'add_fp', 'cid': 720, 'length': 700000, 'iso_path': '/ZFILL.;1', 'rr_name': 'zfill'})
            h.apply({'op': 'add_isohybrid', 'geometry_heads': 1, 'geometry_sectors': 1})
    img, oc = h.sess.write()
    if not oc.ok:
        raise RuntimeError('seed %d write failed: %s' % (k, oc.summary()))
    data = img.getvalue()
    if k == 8:
        s2, oc = h.sess.reopen(data)
        g2 = Gen(77, 'churn')
        g2.uniq = 5000
        g2.next_cid = 5000
        for _ in range(20):
            s2.step(g2.gen_op(s2.model))
        img2, oc = s2.write()
        if oc.ok:
            data = img2.getvalue()
        s2.close()
    h.sess.close()
    dec = common.decode_all(data)
    ranges = []
    for kind, ident, s, e in common.full_extent_map(dec):
        if kind.endswith('-data'):
            continue
        ranges.append((kind, s, min(e, len(data))))
    # the both-byte-order numbers of every volume descriptor (space size, set size, sequence number,
    # block size, path table size) as a structure of its own
    for vol_ in dec['ecma'].volumes:
        base_ = vol_.vd.sector * 2048
        ranges.append(('vd-numbers', base_ + 80, base_ + 140))
    # directory records as structures of their own: the first records of every directory (files and
    # directories, the boot catalog among them), whose extent and length come in both byte orders
    for vol_ in dec['ecma'].volumes:
        per_dir = {}
        for path_, node_ in sorted(vol_.tree.items()):
            par_ = path_.rsplit('/', 1)[0]
            if per_dir.get(par_, 0) >= 3 or not isinstance(node_.rec_offset, int):
                continue
            per_dir[par_] = per_dir.get(par_, 0) + 1
            if 0 < node_.rec_offset < len(data) - 34:
                ranges.append(('dr-numbers', node_.rec_offset, node_.rec_offset + 33))
    rr_ = dec.get('susp')
    if rr_ is not None and getattr(rr_, 'present', False):
        # System Use entries: the 4-byte header (signature, length, version) of a few entries of
        # every signature that occurs, as structures of their own
        per_sig = {}
        for path_, ent_ in sorted(rr_.entries.items()):
            for sig_, off_ in zip(ent_.sigs, ent_.offsets):
                if per_sig.get(sig_, 0) < 3 and 0 < off_ < len(data) - 4:
                    per_sig[sig_] = per_sig.get(sig_, 0) + 1
                    ranges.append(('susp-%s' % sig_, off_, off_ + 4))
    et = dec['eltorito']
    if et.present:
        # boot files are parsed too: the boot info table (bytes 8..64 of a boot file) is
        # re-validated when an image is opened
        ents = ([et.initial] if et.initial is not None else []) + [e for sec in et.sections for e in sec.entries]
        for e_ in ents:
            st = e_.load_rba * 2048
            if 0 < st < len(data) - 64:
                ranges.append(('boot-info-table', st + 8, st + 64))
        # the catalog entry by entry (validation, initial, section headers and entries)
        cat_ = et.catalog_lba * 2048
        for j_ in range(min(12, max(2, getattr(et, 'used_entries', 2) + 1))):
            if 0 < cat_ and cat_ + 32 * j_ + 32 <= len(data):
                ranges.append(('boot-entry', cat_ + 32 * j_, cat_ + 32 * j_ + 32))
    # UDF descriptors: tag and the fixed-position numbers behind it as structures of their own
    # (anchors, both volume descriptor sequences, integrity and file set descriptors, the first
    # file entries and file identifier areas)
    per_kind = {}
    for kind_, s_, e_ in list(ranges):
        if kind_ in ('udf-avdp', 'udf-mainvds', 'udf-reservevds', 'udf-lvid', 'udf-fsd', 'udf-fe', 'udf-fids'):
            for sec_ in range(s_, min(e_, s_ + 6 * 2048), 2048):
                if per_kind.get(kind_, 0) >= (3 if kind_ in ('udf-fe', 'udf-fids') else 6):
                    break
                per_kind[kind_] = per_kind.get(kind_, 0) + 1
                ranges.append(('udf-head:' + kind_[4:], sec_, sec_ + 512))
    if dec['hybrid'].present:
        # the system area by sub-structure (fixed positions of the isohybrid layout), and the backup GPT
        ranges += [('mbr', 0, 512), ('mbr-partitions', 440, 512), ('gpt-header', 512, 604), ('gpt-entries', 1024, 1024 + 4 * 128),
                   ('apm', 2048, 2048 + 3 * 2048), ('system-area', 0, 32768)]
        n_ = len(data)
        ranges += [('gpt-backup-header', n_ - 512, n_ - 512 + 92), ('gpt-backup-entries', n_ - 33 * 512, n_ - 33 * 512 + 4 * 128)]
    else:
        ranges.append(('vd-area', 32768, 32768))
    ranges = [r for r in ranges if r[2] > r[1]]
    return ('seed%d:%r' % (k, cfg), data, ranges)


def seed(k):
    if k not in _seeds:
        _seeds[k] = build_seed(k)
    return _seeds[k]


NSEEDS = 11


def dag_fault(data, levels):
    """Seed image 9 with the records X and Y of A_k repointed (extent and length, both byte
    orders) at directory A_(k+1), for k = 1..levels: an acyclic graph with 2^levels paths."""
    from harness.indep import ecma119
    dec = ecma119.decode(data)
    b = bytearray(data)
    for a in range(1, levels + 1):
        src = dec.pvd.dirs.get('/A%02d' % a)
        dst = dec.pvd.dirs.get('/A%02d' % (a + 1))
        if src is None or dst is None:
            break
        for r in src.records:
            if r.ident in (b'X', b'Y'):
                struct.pack_into('<L', b, r.offset + 2, dst.extent)
                struct.pack_into('>L', b, r.offset + 6, dst.extent)
                struct.pack_into('<L', b, r.offset + 10, dst.data_length)
                struct.pack_into('>L', b, r.offset + 14, dst.data_length)
    return bytes(b)
VALUES = ['zero', 'one', 'max', 'max-1', 'sign', 'self', 'other', 'beyond', 'flip', 'inc', 'dec']


def pick_range(rng, ranges):
    """A structure kind first (so that the one boot catalog competes equally with hundreds of
    directory sectors), then one range of that kind."""
    kinds = sorted({r[0] for r in ranges})
    k = rng.choice(kinds)
    return rng.choice([r for r in ranges if r[0] == k])


def make_fault(rng, data, ranges):
    """Returns (mutated bytes, fault description dict)."""
    n = len(data)
    kind = rng.choices(['field', 'field', 'field', 'field', 'trunc', 'random', 'swap', 'zero-sector', 'alias'], [40, 20, 10, 10, 8, 6, 3, 3, 6])[0]
    b = bytearray(data)
    if kind == 'trunc':
        r = pick_range(rng, ranges) if rng.random() < 0.7 else rng.choice(ranges)
        cut = rng.choice([r[1], r[2], rng.randint(r[1], r[2]), (rng.randint(0, n) // 2048) * 2048, rng.randint(0, n), 32768, 34816, 16 * 2048 + rng.randint(0, 4096)])
        cut = max(0, min(n, cut))
        return bytes(b[:cut]), {'fault': 'trunc', 'at': cut, 'structure': r[0]}
    if kind == 'random':
        r = pick_range(rng, ranges) if rng.random() < 0.7 else rng.choice(ranges)
        for _ in range(rng.choice([1, 2, 4, 16])):
            off = rng.randint(r[1], r[2] - 1)
            b[off] = rng.randint(0, 255)
        return bytes(b), {'fault': 'random', 'structure': r[0]}
    if kind == 'swap':
        r1, r2 = pick_range(rng, ranges), pick_range(rng, ranges)
        s1, s2 = (r1[1] // 2048) * 2048, (r2[1] // 2048) * 2048
        if rng.random() < 0.5:
            b[s1:s1 + 2048], b[s2:s2 + 2048] = b[s2:s2 + 2048], b[s1:s1 + 2048]
            return bytes(b), {'fault': 'swap', 'structure': r1[0] + '<->' + r2[0]}
        b[s1:s1 + 2048] = b[s2:s2 + 2048]
        return bytes(b), {'fault': 'dup-sector', 'structure': r2[0] + '->' + r1[0]}
    if kind == 'alias':
        # one sector of a structure copied over another sector of the same kind of structure:
        # directories that contain themselves, file entries shared by two names, cycles
        kinds = sorted({r[0] for r in ranges})
        rng.shuffle(kinds)
        for k in kinds:
            same = [r for r in ranges if r[0] == k]
            secs = sorted({sec for r in same for sec in range(r[1] // 2048, (r[2] + 2047) // 2048)})
            if len(secs) >= 2:
                a, c = rng.sample(secs, 2)
                b[c * 2048:c * 2048 + 2048] = b[a * 2048:a * 2048 + 2048]
                return bytes(b), {'fault': 'alias', 'structure': k, 'from_sector': a, 'to_sector': c}
        kind = 'zero-sector'
    if kind == 'zero-sector':
        r = pick_range(rng, ranges) if rng.random() < 0.7 else rng.choice(ranges)
        s = ((rng.randint(r[1], r[2] - 1)) // 2048) * 2048
        b[s:s + 2048] = b'\x00' * 2048
        return bytes(b), {'fault': 'zero-sector', 'structure': r[0]}
    # field corruption inside a structural range, biased to bytes that are used
    r = pick_range(rng, ranges) if rng.random() < 0.7 else rng.choice(ranges)
    for _ in range(16):
        off = rng.randint(r[1], r[2] - 1)
        if b[off] != 0 or rng.random() < 0.2:
            break
    width = rng.choice([1, 1, 2, 4, 4, 8])
    off = min(off, n - width)
    val = rng.choice(VALUES)
    sector_self = off // 2048
    other = rng.choice(ranges)[1] // 2048
    be = rng.random() < 0.3
    bits = 8 * min(width, 4)
    v = {'zero': 0, 'one': 1, 'max': (1 << bits) - 1, 'max-1': (1 << bits) - 2, 'sign': 1 << (bits - 1), 'self': sector_self & ((1 << bits) - 1),
         'other': other & ((1 << bits) - 1), 'beyond': ((n // 2048) + rng.choice([0, 1, 1000])) & ((1 << bits) - 1), 'flip': None,
         'inc': None, 'dec': None}[val]
    if val in ('inc', 'dec'):
        w = min(width, 4)
        cur = int.from_bytes(b[off:off + w], 'big' if be else 'little')
        v = (cur + (1 if val == 'inc' else -1)) & ((1 << (8 * w)) - 1)
    if v is None:
        b[off] ^= 1 << rng.randint(0, 7)
    elif width == 8:
        # both-endian 32-bit
        b[off:off + 4] = struct.pack('<L', v)
        b[off + 4:off + 8] = struct.pack('>L', v)
    else:
        fmt = {1: 'B', 2: 'H', 4: 'L'}[width]
        b[off:off + width] = struct.pack(('>' if be else '<') + fmt, v)
    return bytes(b), {'fault': 'field', 'structure': r[0], 'offset': off, 'in_structure': off - r[1], 'width': width, 'value': val}


def attempt(data, counters, with_mem=False):
    import pycdlib
    fp = driver.DiskReader(data)
    iso = pycdlib.PyCdlib()
    budget = 4 * len(data) + 200000
    res = {'outcome': None}
    old = signal.signal(signal.SIGALRM, _alarm)
    if with_mem:
        tracemalloc.start()
    signal.alarm(60)
    MON.start(budget=budget)
    try:
        try:
            iso.open_fp(fp)
            res['outcome'] = 'opened'
        except monitors.BudgetExceeded as e:
            res['outcome'] = 'budget:steps@%s' % e
        except Watchdog:
            res['outcome'] = 'watchdog'
        except Exception as e:
            cls = type(e).__name__
            if cls in DOCUMENTED:
                res['outcome'] = 'documented-error'
                res['exc'] = cls
            else:
                res['outcome'] = 'escape:%s@%s' % (cls, driver.innermost_pycdlib_frame(e))
                res['msg'] = str(e)[:200]
    finally:
        steps = MON.stop()
        signal.alarm(0)
        signal.signal(signal.SIGALRM, old)
        if with_mem:
            cur, peak = tracemalloc.get_traced_memory()
            tracemalloc.stop()
            res['peak'] = peak
    res['steps'] = steps
    res['bytes_read'] = fp.bytes_read
    if res['outcome'] == 'opened':
        try:
            iso.close()
        except Exception as e:
            res['outcome'] = 'close-after-open-raises:%s' % type(e).__name__
    return res


_sweeps = {}


def ce_entries(data):
    """(offset of the CE entry, block, offset in block, length) of every well-formed Rock Ridge
    continuation entry of the image (both byte orders agreeing, block inside the image)."""
    res, pos = [], 0
    while True:
        i = data.find(b'CE\x1c\x01', pos)
        if i < 0 or i + 28 > len(data):
            return res
        pos = i + 1
        bl, ol, ll = struct.unpack_from('<L', data, i + 4)[0], struct.unpack_from('<L', data, i + 12)[0], struct.unpack_from('<L', data, i + 20)[0]
        bb, ob, lb = struct.unpack_from('>L', data, i + 8)[0], struct.unpack_from('>L', data, i + 16)[0], struct.unpack_from('>L', data, i + 24)[0]
        if bl == bb and ol == ob and ll == lb and 16 < bl < len(data) // 2048 and ol + ll <= 2048:
            res.append((i, bl, ol, ll))


def ce_tail_fault(data, which, value):
    """The continuation block shared by the most entries copied behind the end of the image, which
    then ends right behind the block's last area (a read of any length comes back with what is
    there); the entries repointed at it; the length of entry `which` of them set to `value`."""
    ents = ce_entries(data)
    per = {}
    for e in ents:
        per.setdefault(e[1], []).append(e)
    if not per:
        return None
    blk = max(sorted(per), key=lambda b_: len(per[b_]))
    grp = sorted(per[blk], key=lambda e: e[2])
    used = max(e[2] + e[3] for e in grp)
    new = len(data) // 2048
    b = bytearray(data[:new * 2048] + data[blk * 2048:blk * 2048 + used])
    for e in grp:
        b[e[0] + 4:e[0] + 12] = struct.pack('<L', new) + struct.pack('>L', new)
    e = grp[which % len(grp)]
    b[e[0] + 20:e[0] + 28] = struct.pack('<L', value) + struct.pack('>L', value)
    return bytes(b)


CE_TAIL_VALUES = (0, 1, 2048, 2049, 0x10000, 0x7fffffff, 0xffffffff)


def sweep_list(k):
    """Deterministic enumeration for the small fixed-layout structures of seed image k (headers,
    partition tables, boot info tables, anchors): every byte set to 0xff / 0x7f and every aligned
    32-bit field set to 0xffffffff - the 'huge count or length' class, without relying on chance."""
    if k not in _sweeps:
        name, data, ranges = seed(k)
        out = []
        seen = set()
        for kind, s_, e_ in ranges:
            if (e_ - s_ > 128 and kind != 'vd-numbers' and not kind.startswith('udf-head:')) or (kind, s_) in seen:
                continue
            seen.add((kind, s_))
            if kind == 'vd-numbers':
                # both copies of a number changed consistently (the parser checks that they agree)
                for rel, w in ((0, 'both32'), (40, 'both16'), (44, 'both16'), (48, 'both16'), (52, 'both32')):
                    for v in (0, 1, 0xffff if w == 'both16' else 0xffffffff, 0x8000 if w == 'both16' else 0x80000000):
                        out.append((kind, s_ + rel, w, v))
                continue
            if kind.startswith('udf-head:'):
                for off in range(s_, s_ + 16):
                    out.append((kind, off, 1, 0xff))
                for off in range(s_ + 16, s_ + 40):
                    out.append((kind, off, 1, 0xff))
                for a_, b_ in ((16, 216), (256, 272), (400, 408), (432, 440)):
                    for off in range(s_ + a_, s_ + b_, 4):
                        out.append((kind, off, 4, 0xffffffff))
                continue
            if kind == 'dr-numbers':
                nsec_ = len(data) // 2048
                for rel, vals in ((2, (0, 16, nsec_ - 1, nsec_, 0x7fffffff, 0xffffffff)),
                                  (10, (0, 1, 2049, len(data), 0x7fffffff, 0xffffffff))):
                    for v in vals:
                        out.append((kind, s_ + rel, 'both32', v))
                continue
            if kind.startswith('susp-'):
                # the length byte of a System Use entry a little shorter / longer than it is
                cur = data[s_ + 2]
                for v in range(max(0, cur - 9), min(255, cur + 9) + 1):
                    if v != cur:
                        out.append((kind, s_ + 2, 1, v))
                out.append((kind, s_ + 3, 1, 0xff))
                continue
            for off in range(s_, e_):
                out.append((kind, off, 1, 0xff))
                out.append((kind, off, 1, 0x7f))
                if kind.startswith('mbr'):
                    # CHS bytes pack two fields: the high bits alone, the low bits alone, nothing
                    out.append((kind, off, 1, 0xc0))
                    out.append((kind, off, 1, 0x3f))
                    out.append((kind, off, 1, 0x00))
                if (off - s_) % 4 == 0 and off + 4 <= len(data):
                    out.append((kind, off, 4, 0xffffffff))
        if ce_entries(data):
            # continuation entries with hostile lengths whose block is the last thing in the image
            out = [('ce-tail', w_, 0, v_) for w_ in range(4) for v_ in CE_TAIL_VALUES] + out
        if k == 9:
            out = [('dag', lv, 0, 0) for lv in (2, 5, 9, 12, 15)] + out
        _sweeps[k] = out
    return _sweeps[k]


def run_fault(k, cs, counters, sweep=None):
    name, data, ranges = seed(k)
    rng = random.Random(cs)
    if sweep is not None and sweep[0] == 'dag':
        mutated, desc = dag_fault(data, sweep[1]), {'fault': 'dag', 'structure': 'iso-dir', 'levels': sweep[1]}
    elif sweep is not None and sweep[0] == 'ce-tail':
        mutated, desc = ce_tail_fault(data, sweep[1], sweep[3]), {'fault': 'ce-tail', 'structure': 'rr-ce', 'entry': sweep[1], 'value': '%#x' % sweep[3]}
    elif sweep is not None:
        kind, off, width, val = sweep
        b = bytearray(data)
        if width == 'both32':
            b[off:off + 8] = struct.pack('<L', val) + struct.pack('>L', val)
        elif width == 'both16':
            b[off:off + 4] = struct.pack('<H', val) + struct.pack('>H', val)
        else:
            b[off:off + width] = val.to_bytes(width, 'little')
        mutated, desc = bytes(b), {'fault': 'sweep', 'structure': kind, 'offset': off, 'width': width, 'value': '%#x' % val}
    else:
        mutated, desc = make_fault(rng, data, ranges)
        if cs % 5 == 2 and len(mutated) == len(data):
            # two independent faults in one image (a damaged pointer and a damaged target); the
            # second one from its own generator, so that the first is the fault this case always had
            mutated, d2 = make_fault(random.Random(cs ^ 0x5f5f5f), mutated, ranges)
            desc = dict(desc, second=d2)
            counters['double_faults'] = counters.get('double_faults', 0) + 1
    with_mem = (cs % 16 == 0)
    res = attempt(mutated, counters, with_mem)
    counters['opens_attempted'] = counters.get('opens_attempted', 0) + 1
    oc = res['outcome']
    counters['outcome:%s' % (oc if oc in ('opened', 'documented-error', 'watchdog') else oc.split('@')[0].split(':')[0])] = counters.get('outcome:%s' % (oc if oc in ('opened', 'documented-error', 'watchdog') else oc.split('@')[0].split(':')[0]), 0) + 1
    counters['steps_total'] = counters.get('steps_total', 0) + res['steps']
    vio = []
    inconclusive = False
    if oc == 'watchdog':
        inconclusive = True
    elif oc not in ('opened', 'documented-error'):
        vio.append({'key': oc, 'detail': '%s %r: %s' % (name, desc, res.get('msg', ''))})
    n = len(mutated)
    if res['bytes_read'] > 16 * n + (4 << 20):
        vio.append({'key': 'budget:bytes', 'detail': '%s %r: read %d bytes from a %d-byte input' % (name, desc, res['bytes_read'], n)})
    if with_mem and res.get('peak', 0) > 16 * n + (16 << 20):
        vio.append({'key': 'budget:memory', 'detail': '%s %r: traced peak %d bytes for a %d-byte input' % (name, desc, res['peak'], n)})
    return vio, desc, res, inconclusive


_flat = []


def flat_sweeps():
    """The deterministic sweeps of all seed images as one list [(seed image, sweep)], interleaved so
    that every image's first entries come first."""
    if not _flat:
        lists = [sweep_list(k) for k in range(NSEEDS)]
        for j in range(max(len(l) for l in lists)):
            for k in range(NSEEDS):
                if j < len(lists[k]):
                    _flat.append((k, lists[k][j]))
    return _flat


def run_case(i, seed_, tier):
    counters = {}
    k = i % NSEEDS
    cs = seed_ * 10000019 + i
    sweep = None
    flat = flat_sweeps()
    if i < len(flat):
        # the whole enumeration comes first, in both tiers; random faults from there on
        k, sweep = flat[i]
        counters['sweep_cases'] = 1
    counters['max:sweep_entries'] = len(flat)
    vio, desc, res, inconclusive = run_fault(k, cs, counters, sweep)
    shape = '%d/%s/%s/%s' % (k, desc['fault'], desc.get('structure'), desc.get('value', ''))
    nt = desc['fault'] != 'random' or True
    for v in vio:
        v['replay'] = {'property': PROPERTY, 'seed_image': k, 'case_seed': cs, 'sweep': list(sweep) if sweep else None}
    return {'verdict': 'inconclusive' if (inconclusive and not vio) else ('violated' if vio else 'held'), 'violations': vio,
            'nontrivial': True, 'shape': shape,
            'sample': {'seed_image': k, 'fault': desc, 'outcome': res['outcome'], 'steps': res['steps'], 'input_len': None},
            'counters': counters}


def replay(doc):
    vio, desc, res, inc = run_fault(doc['seed_image'], doc['case_seed'], {}, tuple(doc['sweep']) if doc.get('sweep') else None)
    return vio
