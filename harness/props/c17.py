"""C17 In-place modification touches only what it must and stays a valid image."""
import io
import random

from harness import blobs, driver, env
from harness.gen import Gen
from harness.indep import ecma119
from harness.props import common

PROPERTY = 'C17'
LEVEL = 'exploration'
RULE = ('images from the generator (multi-sector directories via the "grow" profile, files at depth, hard-linked and multi-namespace files, '
        'XA / Rock Ridge / Joliet / UDF) written to a real read-write backing file object and opened; modify_file_in_place with new lengths '
        '0..beyond the sector boundary (same sector count: accepted; different: must be refused), directory targets (refused), repeated '
        'modifications. Oracle: before/after snapshots of the backing bytes, the diff mapped through the independent extent map of the '
        'BEFORE image to object kinds (allowed: the file\'s data sectors, the directory sectors / UDF file entries holding its records, '
        'volume descriptors), the image re-decoded independently and re-opened, the file read under all its names, every other file '
        'unchanged; a refused call must leave the backing bytes identical. distinct = (configuration, target kind, length class); '
        'non-trivial = the target\'s record is not in the first sector of its directory, or the file has >= 3 names')
ASSUMPTIONS = ['independent decoders map byte offsets to objects', 'the backing file is an io.BytesIO opened through open_fp (no mode attribute => treated as writable)']
REQUIRED_COUNTERS = {'modifications_accepted': 50, 'refusals_checked': 20}


def plan(tier):
    return 400 if tier == 'quick' else 10000


def run(cs, counters, script=None):
    """script: list of (iso_path, new_length, data_seed) to replay; None = generate."""
    from harness.props import c01
    vio = []
    g = Gen(cs)
    rng = g.rng
    cfg = g.cfg(index=cs)
    h = common.History(cfg, cs, rng.choice(['grow', 'links', 'std', 'grow']), max_size=7000)
    if rng.random() < 0.5:
        # a multi-sector directory with the target somewhere inside
        h.apply({'op': 'add_directory', 'iso_path': '/BIGDIR' if cfg.level < 4 else '/bigdir', **({'rr_name': 'bigdir'} if cfg.rr else {})})
        for k in range(rng.choice([40, 80, 120])):
            op = {'op': 'add_fp', 'cid': h.gen.new_cid(), 'length': rng.choice([1, 100, 2048, 3000]),
                  'iso_path': join_('/BIGDIR' if cfg.level < 4 else '/bigdir', h.gen.iso_file_name(cfg.level))}
            if cfg.rr:
                op['rr_name'] = h.gen.rr_name(0.02)
            if cfg.joliet and rng.random() < 0.3:
                op['joliet_path'] = '/' + h.gen.uni_name()
            if cfg.udf and rng.random() < 0.3:
                op['udf_path'] = '/' + h.gen.udf_name()
            h.apply(op)
    h.extend(rng.choice([8, 20, 35]))
    if cs % 5 == 1:
        # copies of the PVD have to stay in agreement after the in-place rewrite
        for _k in range(1 + cs % 2):
            h.apply({'op': 'duplicate_pvd'})
        counters['duplicate_pvd_images'] = counters.get('duplicate_pvd_images', 0) + 1
    img, oc = h.sess.write()
    if not oc.ok:
        h.sess.close()
        return [{'key': 'setup-write-raises', 'detail': oc.summary()}], []
    data0 = img.getvalue()
    model = h.sess.model.clone()
    model.reopened()
    h.sess.close()
    files = sorted(p for p, n in model.ns['iso'].items() if n.kind == 'file' and n.cid is not None and n.cid != 'catalog' and not model.boot_refs(n.cid))
    dirs = sorted(p for p, n in model.ns['iso'].items() if n.kind == 'dir')
    if cs % 7 == 3 and files:
        # the image in a real file opened read-only: every modification must be refused, and a refused
        # one must leave neither the file nor what the object reads and masters changed
        vio_ro = readonly_case(data0, model, files, rng, counters)
        if vio_ro:
            return c01.dedup(vio_ro), []
    backing = io.BytesIO(data0)
    if cs % 3 != 0:
        # the image is modified later than it was mastered
        env.CLOCK.advance(3600 * (1 + cs % 50) + 11)
    import pycdlib
    iso = pycdlib.PyCdlib()
    try:
        iso.open_fp(backing)
    except Exception as e:
        return [{'key': 'setup-open-raises:%s' % type(e).__name__, 'detail': str(e)}], []
    done = []
    steps = script if script is not None else None
    nsteps = len(script) if script is not None else rng.choice([1, 2, 4, 6])
    for k in range(nsteps):
        if script is not None:
            target, newlen, dseed = script[k]
        else:
            if not files:
                break
            if dirs and rng.random() < 0.12:
                target = rng.choice(dirs)
                newlen = rng.choice([10, 2048])
            else:
                target = rng.choice(files)
                oldlen = model.contents[model.ns['iso'][target].cid].length
                sect = (oldlen + 2047) // 2048
                choices = [max(0, sect * 2048 - 2047), sect * 2048, max(0, sect * 2048 - 1), oldlen, max(0, oldlen - 1), oldlen + 1,
                           sect * 2048 + 1, (sect + 1) * 2048, max(0, (sect - 1) * 2048), 0]
                newlen = rng.choice(choices)
            dseed = rng.randint(0, 1 << 30)
        done.append((target, newlen, dseed))
        newdata = random.Random(dseed).randbytes(newlen)
        before = backing.getvalue()
        node = model.ns['iso'].get(target)
        is_file = node is not None and node.kind == 'file' and node.cid is not None
        oldlen = model.contents[node.cid].length if is_file else None
        expect_ok = is_file and ((oldlen + 2047) // 2048 == (newlen + 2047) // 2048)
        src_fp = io.BytesIO(newdata)
        if dseed % 3 == 0:
            # a source that was just filled (or read before): like add_fp, the call takes the
            # contents from the start of the file object wherever its position is
            src_fp.seek(0, 2)
        try:
            iso.modify_file_in_place(src_fp, newlen, target)
            ok = True
            exc = None
        except Exception as e:
            ok = False
            exc = e
        after = backing.getvalue()
        if not ok:
            counters['refusals_checked'] = counters.get('refusals_checked', 0) + 1
            if type(exc).__name__ not in ('PyCdlibInvalidInput',):
                vio.append({'key': 'refusal-wrong-exception:%s' % type(exc).__name__, 'detail': '%s len %d: %s' % (target[:60], newlen, exc)})
            if after != before:
                vio.append({'key': 'refusal-modified-file', 'detail': 'refused modify_file_in_place(%s, %d) changed %d byte ranges of the image file' % (target[:60], newlen, len(common.diff_ranges(before, after)))})
            if expect_ok:
                counters['legal_refused'] = counters.get('legal_refused', 0) + 1
            continue
        if not expect_ok:
            vio.append({'key': 'refusal-missing:%s' % ('directory' if not is_file else 'sector-count-change'), 'detail': 'modify_file_in_place(%s, %d -> %d bytes) was accepted' % (target[:60], oldlen or -1, newlen)})
            break
        counters['modifications_accepted'] = counters.get('modifications_accepted', 0) + 1
        # update the model
        c = model.contents[node.cid]
        c.length = newlen
        c.data = newdata
        # 1. what changed, mapped through the BEFORE image
        dec_before = common.decode_all(before)
        idx = common.ExtentIndex(common.full_extent_map(dec_before))
        names = model.names_of(node.cid)
        allowed_data = set()
        for ns, p in names:
            allowed_data.add(('%s-data' % {'iso': 'iso', 'joliet': 'joliet', 'udf': 'udf'}[ns], p))
        parent_dirs = set()
        for ns, p in names:
            par = p.rsplit('/', 1)[0] or '/'
            parent_dirs.add(({'iso': 'iso-dir', 'joliet': 'joliet-dir', 'udf': 'udf-fids'}[ns], par))
        if len(after) != len(before):
            vio.append({'key': 'touched:length', 'detail': 'image file length %d -> %d' % (len(before), len(after))})
        for s_, e_ in common.diff_ranges(before, after, limit=40):
            hit = idx.locate(s_)
            kind = hit[0] if hit else 'unmapped'
            ident = hit[1] if hit else None
            okk = False
            if kind.startswith('vd-'):
                okk = True
            elif kind.endswith('-data') and ((kind, ident) in allowed_data or kind == 'enh-data' and ('iso-data', ident) in allowed_data):
                okk = True
            elif kind in ('iso-dir', 'joliet-dir', 'enh-dir') and ((kind if kind != 'enh-dir' else 'iso-dir'), ident) in parent_dirs:
                okk = True
            elif kind == 'udf-fe' and any(ns == 'udf' and ident == p for ns, p in names):
                okk = True
            if not okk:
                vio.append({'key': 'touched:%s' % kind, 'detail': 'modify_file_in_place(%s) changed bytes %d..%d which belong to %s %r' % (target[:50], s_, e_, kind, (ident or '')[:50])})
        # 2. still a valid image: independent decode + reopen + views
        dec = ecma119.decode(after)
        for kk, d in dec.all_problems():
            vio.append({'key': 'invalid-after:%s' % kk, 'detail': d})
        # every directory record of the file (each of its names, in each tree) carries the new length
        # and leads to the new bytes; every other record is what it was
        dec_b = dec_before['ecma']
        for nsname, tb, ta in (('iso', dec_b.pvd, dec.pvd), ('joliet', dec_b.joliet, dec.joliet)):
            if tb is None or ta is None:
                continue
            mine = {p for ns_, p in names if ns_ == nsname}
            if mine and not (mine & set(tb.tree)):
                # (names below a relocated directory are decoded at their physical place)
                counters['records_skipped_relocated'] = counters.get('records_skipped_relocated', 0) + 1
                continue
            own_ext = {tb.tree[p].extent for p in mine if p in tb.tree and tb.tree[p].length > 0}
            mine |= {p for p, n_ in tb.tree.items() if n_.kind == 'file' and n_.length > 0 and n_.extent in own_ext}
            for pth, nb in tb.tree.items():
                na = ta.tree.get(pth)
                if na is None:
                    vio.append({'key': 'records:%s:lost' % nsname, 'detail': '%s no longer decoded' % pth[:60]})
                    break
                if nb.kind != 'file':
                    continue
                if pth in mine:
                    counters['own_records_checked'] = counters.get('own_records_checked', 0) + 1
                    if na.length != newlen:
                        vio.append({'key': 'records:%s:own-length' % nsname, 'detail': 'the directory record of %s says %d bytes, expected %d' % (pth[:60], na.length, newlen)})
                    elif ecma119.read_file(after, na) != newdata:
                        vio.append({'key': 'records:%s:own-bytes' % nsname, 'detail': 'the directory record of %s does not lead to the new bytes' % pth[:60]})
                elif (na.length, na.extent) != (nb.length, nb.extent):
                    vio.append({'key': 'records:%s:other-changed' % nsname, 'detail': '%s: length/extent %r -> %r' % (pth[:60], (nb.length, nb.extent), (na.length, na.extent))})
        if cfg.udf:
            # the UDF side of the bridge too: tags, lengths (information length = what the
            # allocation descriptors map), link structure
            from harness.indep import udf as _iudf
            u_after = _iudf.decode(after)
            before_keys = {kk for kk, _d in _iudf.decode(before).problems}
            for kk, d in u_after.problems:
                if kk not in before_keys:
                    vio.append({'key': 'invalid-after:udf:%s' % kk, 'detail': d})
            counters['udf_images_redecoded'] = counters.get('udf_images_redecoded', 0) + 1
            # every File Entry that names the file carries the new length and maps the new bytes;
            # every other File Entry is what it was
            u_before = dec_before.get('udf') or _iudf.decode(before)
            mine_u = {p_ for ns_, p_ in names if ns_ == 'udf'}
            own_blocks = {u_before.tree[p_].fe_block for p_ in mine_u if p_ in u_before.tree}
            for pth, nb in u_before.tree.items():
                if nb.kind != 'file':
                    continue
                na = u_after.tree.get(pth)
                if na is None:
                    vio.append({'key': 'records:udf:lost', 'detail': '%s no longer decoded' % pth[:60]})
                    break
                if pth in mine_u or nb.fe_block in own_blocks:
                    counters['own_udf_entries_checked'] = counters.get('own_udf_entries_checked', 0) + 1
                    if na.length != newlen or sum(l_ for _s, l_ in na.extents) != newlen:
                        vio.append({'key': 'records:udf:own-length', 'detail': 'the File Entry of %s says %d bytes (extents %d), expected %d' % (pth[:60], na.length, sum(l_ for _s, l_ in na.extents), newlen)})
                    elif newlen <= (1 << 20) and _iudf.read_file(after, na) != newdata:
                        vio.append({'key': 'records:udf:own-bytes', 'detail': 'the File Entry of %s does not lead to the new bytes' % pth[:60]})
                elif (na.length, na.extents) != (nb.length, nb.extents):
                    vio.append({'key': 'records:udf:other-changed', 'detail': '%s: length/extents %r -> %r' % (pth[:60], (nb.length, nb.extents), (na.length, na.extents))})
        if cfg.rr:
            from harness.indep import susp as _susp
            rr_after = _susp.decode(after, dec)
            before_rr = {kk for kk, _d in _susp.decode(before, ecma119.decode(before)).problems}
            for kk, d in rr_after.problems:
                if kk not in before_rr:
                    vio.append({'key': 'invalid-after:rr:%s' % kk, 'detail': d})
        try:
            iso2 = pycdlib.PyCdlib()
            iso2.open_fp(io.BytesIO(after))
            for kk, d in common.compare_views(model, iso2):
                vio.append({'key': 'content:%s' % kk.split(':', 1)[1], 'detail': d})
            iso2.close()
        except Exception as e:
            vio.append({'key': 'invalid-after:reopen-raises:%s' % type(e).__name__, 'detail': str(e)})
        # 3. the live object sees the new content under all names
        for ns, p in names:
            buf = io.BytesIO()
            try:
                iso.get_file_from_iso_fp(buf, **{'%s_path' % ns: p})
                if buf.getvalue() != newdata:
                    vio.append({'key': 'content:live:%s' % ns, 'detail': '%s reads %d bytes, expected the %d new bytes' % (p[:60], len(buf.getvalue()), newlen)})
            except Exception as e:
                vio.append({'key': 'content:live:%s:raises:%s' % (ns, type(e).__name__), 'detail': str(e)})
        if vio:
            break
    try:
        iso.close()
    except Exception:
        pass
    return c01.dedup(vio), done


def explorer_case(cs, counters):
    """modify_file_in_place through tools/pycdlib-explorer (a real subprocess fed commands on stdin):
    a relative path is an ISO9660 path relative to the ISO9660 working directory, whatever print
    mode is on; the file named that way gets the new content under all its names, nothing else
    changes."""
    import os
    import subprocess
    import tempfile
    import pycdlib
    rng = random.Random(cs)
    vio = []
    base = '/dev/shm' if os.path.isdir('/dev/shm') and os.access('/dev/shm', os.W_OK) else None
    tmp = tempfile.mkdtemp(prefix='verif-c17x-', dir=base)
    try:
        rr = rng.random() < 0.5
        iso = pycdlib.PyCdlib()
        iso.new(interchange_level=3, joliet=3, rock_ridge='1.09' if rr else None, udf='2.60' if rng.random() < 0.4 else None)
        udf = iso.udf_root is not None if hasattr(iso, 'udf_root') else False
        contents = {}
        iso.add_directory('/DIR1', joliet_path='/dir1', **({'rr_name': 'dir1'} if rr else {}), **({'udf_path': '/dir1'} if udf else {}))
        for ip, jp, fill in (('/FOO.;1', '/foo', b'A'), ('/DIR1/FOO.;1', '/dir1/foo', b'B'), ('/DIR1/BAR.;1', '/dir1/bar', b'C'), ('/ZED.;1', '/zed', b'D')):
            data = fill * rng.choice([100, 2048, 3000])
            contents[ip] = (jp, data)
            iso.add_fp(io.BytesIO(data), len(data), ip, joliet_path=jp, **({'rr_name': jp.rsplit('/', 1)[1]} if rr else {}), **({'udf_path': jp} if udf else {}))
        path = os.path.join(tmp, 'img.iso')
        iso.write(path)
        iso.close()
        scen = rng.choice(['abs', 'rel-iso', 'rel-other-mode', 'cd-in-other-mode'])
        mode2 = rng.choice(['joliet'] + (['rr'] if rr else []) + (['udf'] if udf else []))
        if scen == 'abs':
            cmds, target = ['print_mode %s' % mode2, 'modify_file_in_place /DIR1/FOO.;1 SRC'], '/DIR1/FOO.;1'
        elif scen == 'rel-iso':
            cmds, target = ['cd DIR1', 'modify_file_in_place FOO.;1 SRC'], '/DIR1/FOO.;1'
        elif scen == 'rel-other-mode':
            cmds, target = ['cd DIR1', 'print_mode %s' % mode2, 'modify_file_in_place FOO.;1 SRC'], '/DIR1/FOO.;1'
        else:
            cmds, target = ['print_mode %s' % mode2, 'cd dir1', 'print_mode iso9660', 'modify_file_in_place FOO.;1 SRC'], '/FOO.;1'
        oldlen = len(contents[target][1])
        newdata = random.Random(cs + 1).randbytes(rng.choice([oldlen, max(1, oldlen - 1), ((oldlen + 2047) // 2048) * 2048]))
        src = os.path.join(tmp, 'src.bin')
        with open(src, 'wb') as f:
            f.write(newdata)
        e = dict(os.environ)
        e['PYTHONPATH'] = env.REPO
        p = subprocess.run(['/venv/bin/python', os.path.join(env.REPO, 'tools', 'pycdlib-explorer'), path],
                           input=('\n'.join(c.replace('SRC', src) for c in cmds) + '\nquit\n').encode(), stdout=subprocess.PIPE, stderr=subprocess.PIPE, env=e, timeout=120)
        counters['explorer_runs'] = counters.get('explorer_runs', 0) + 1
        with open(path, 'rb') as f:
            after = f.read()
        dec = ecma119.decode(after)
        for kk, d in dec.all_problems():
            if 'sort' not in kk:
                vio.append({'key': 'explorer:invalid-after:%s' % kk, 'detail': d})
        for ip, (jp, data) in contents.items():
            want = newdata if ip == target else data
            for vol, pth in ((dec.pvd, ip), (dec.joliet, jp)):
                node = vol.tree.get(pth) if vol is not None else None
                got = ecma119.read_file(after, node) if node is not None else None
                if got != want:
                    vio.append({'key': 'explorer:%s:%s' % (scen, 'target-not-modified' if ip == target else 'other-file-modified'),
                                'detail': 'commands %r: %s holds %r..., expected %r... (tool output: %s)' % (cmds, pth, (got or b'')[:8], want[:8], p.stdout.decode('utf-8', 'replace')[-120:])})
                    break
    finally:
        import shutil
        shutil.rmtree(tmp, ignore_errors=True)
    return vio


def readonly_case(data0, model, files, rng, counters):
    import os
    import tempfile
    import pycdlib
    vio = []
    base = '/dev/shm' if os.path.isdir('/dev/shm') and os.access('/dev/shm', os.W_OK) else None
    fd, path = tempfile.mkstemp(prefix='verif-c17-', suffix='.iso', dir=base)
    try:
        with os.fdopen(fd, 'wb') as f:
            f.write(data0)
        iso = pycdlib.PyCdlib()
        iso.open(path)            # default mode 'rb'
        try:
            for _k in range(rng.choice([1, 2, 3])):
                target = rng.choice(files)
                oldlen = model.contents[model.ns['iso'][target].cid].length
                newlen = rng.choice([oldlen, max(0, oldlen - 1), ((oldlen + 2047) // 2048) * 2048 or 1, oldlen + 1])
                try:
                    iso.modify_file_in_place(io.BytesIO(b'\xa5' * newlen), newlen, target)
                    vio.append({'key': 'readonly:accepted', 'detail': 'modify_file_in_place(%s, %d) on an image opened read-only was accepted' % (target[:50], newlen)})
                    break
                except Exception as e:
                    counters['readonly_refusals'] = counters.get('readonly_refusals', 0) + 1
                    if type(e).__name__ != 'PyCdlibInvalidInput':
                        vio.append({'key': 'readonly:wrong-exception:%s' % type(e).__name__, 'detail': str(e)})
                buf = io.BytesIO()
                iso.get_file_from_iso_fp(buf, iso_path=target)
                if buf.getvalue() != model.contents[model.ns['iso'][target].cid].bytes():
                    vio.append({'key': 'readonly:refusal-changed-content', 'detail': 'after the refused modify_file_in_place %s reads %d bytes that are not its content' % (target[:50], len(buf.getvalue()))})
                    break
            with open(path, 'rb') as f:
                if f.read() != data0:
                    vio.append({'key': 'readonly:file-changed', 'detail': 'the read-only image file changed'})
            if not vio:
                for kk, d in common.compare_views(model, iso):
                    vio.append({'key': 'readonly:view:%s' % kk.split(':', 1)[1], 'detail': d})
        finally:
            iso.close()
    finally:
        try:
            os.unlink(path)
        except OSError:
            pass
    return vio


def join_(a, b):
    return (a if a != '/' else '') + '/' + b


def run_case(i, seed, tier):
    counters = {}
    cs = seed * 1000003 + i
    if i % 25 == 11:
        vio = explorer_case(cs, counters)
        return {'verdict': 'violated' if vio else 'held', 'violations': [dict(v, replay={'property': PROPERTY, 'explorer_case': cs}) for v in vio],
                'nontrivial': True, 'shape': 'explorer/%d' % (cs % 64), 'sample': {'explorer_case': cs}, 'counters': counters}
    vio, done = run(cs, counters)
    return {'verdict': 'violated' if vio else 'held',
            'violations': [dict(v, replay={'property': PROPERTY, 'case_seed': cs, 'script': [list(d) for d in done]}) for v in vio],
            'nontrivial': counters.get('modifications_accepted', 0) > 0, 'shape': '%d/%s' % (cs % 256, [(d[1] % 2048 == 0, d[1] == 0) for d in done]),
            'sample': {'case_seed': cs, 'steps': [(d[0][:40], d[1]) for d in done]}, 'counters': counters}


def replay(doc):
    if 'explorer_case' in doc:
        return explorer_case(doc['explorer_case'], {})
    vio, _ = run(doc['case_seed'], {}, script=[tuple(x) for x in doc['script']])
    return vio
