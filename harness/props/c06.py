"""C06 Lazy metadata is transparent: the bytes of a written image depend only
on the sequence of edits, not on when metadata was recomputed."""
import random

from harness import driver, env
from harness.gen import Gen
from harness.props import common

PROPERTY = 'C06'
LEVEL = 'exploration'
RULE = ('twin executions of one accepted edit history under different recomputation schedules: lazy, always_consistent=True, '
        'and lazy with force_consistency / get_record / list_children / walk / get_file_from_iso_fp / full write_fp inserted at '
        'random positions (4 schedules per history in quick, 6 in thorough); final images compared byte for byte; after a final '
        'force_consistency the extent/length reported by get_record for every entry is compared with the independent decoding of '
        'the image written next. distinct = (configuration, op-kind sequence, schedule positions) hash; non-trivial = the schedule '
        'inserts >= 2 recomputation triggers strictly between edits')
ASSUMPTIONS = ['determinism shim (virtual clock does not advance inside a history)', 'independent ECMA-119 decoder for the query clause']
REQUIRED_COUNTERS = {'schedules_compared': 10, 'query_entries_checked': 10}

QUERIES = ['force', 'get_record', 'list_children', 'walk', 'read', 'write']


def plan(tier):
    return 600 if tier == "quick" else 10000


# second workload (harness/suite.py): the repository's own integration tests are run twice under
# the determinism shim - as they are, and with every PyCdlib object made always-consistent; each
# test must master the same images both times
SUITE_TIERS = ('quick', 'thorough')
SUITE_TWIN = True


def make_schedule(rng, ops, model_paths, n_inserts):
    """Returns list of (position, query-op) sorted by position (insert before ops[position])."""
    sched = []
    for _ in range(n_inserts):
        pos = rng.randint(1, max(1, len(ops)))
        kind = rng.choice(QUERIES)
        sched.append((pos, kind))
    sched.sort()
    return sched


def run_schedule(cfg, ops, seed, sched, always_consistent=False):
    """Execute ops with the schedule's extra calls; returns (bytes | None, error, session)."""
    env.reset(seed)
    s = driver.Session(cfg, seed, always_consistent).new()
    rng = random.Random(seed ^ 0x5ced)
    by_pos = {}
    for pos, kind in sched:
        by_pos.setdefault(pos, []).append(kind)
    for i, op in enumerate(ops):
        for kind in by_pos.get(i, []):
            do_query(s, kind, rng)
        out = s.step(op)
        if not out.ok:
            return None, 'op %d %s refused under schedule: %s' % (i, op['op'], out.summary()), s
    for kind in by_pos.get(len(ops), []):
        do_query(s, kind, rng)
    img, oc = s.write()
    if not oc.ok:
        return None, 'write-raises:%s@%s: %s' % (oc.exc_class, oc.exc_where, oc.exc_msg), s
    return img.getvalue(), None, s


def do_query(s, kind, rng):
    m = s.model
    if kind == 'force':
        s.step({'op': 'force_consistency'})
        return
    if kind == 'write':
        s.step({'op': 'q_write'})
        return
    nss = [('iso', 'iso_path')] + ([('joliet', 'joliet_path')] if m.cfg.joliet else []) + ([('udf', 'udf_path')] if m.cfg.udf else [])
    ns, key = rng.choice(nss)
    paths = sorted(m.ns[ns])
    if kind == 'walk' or not paths:
        s.step({'op': 'q_walk', 'key': key, 'path': '/'})
        return
    p = rng.choice(paths)
    node = m.ns[ns][p]
    if kind == 'get_record':
        s.step({'op': 'q_get_record', 'key': key, 'path': p})
    elif kind == 'list_children':
        d = p if node.kind == 'dir' else '/'
        s.step({'op': 'q_list_children', 'key': key, 'path': d})
    elif kind == 'read':
        if node.kind == 'file' and node.cid is not None:
            s.step({'op': 'q_read', 'key': key, 'path': p})
        else:
            s.step({'op': 'q_walk', 'key': key, 'path': '/'})


def query_clause(s, counters):
    """After force_consistency: locations/lengths reported by get_record equal
    those in the image written next (independent decoding)."""
    from harness.indep import ecma119
    vio = []
    s.step({'op': 'force_consistency'})
    reported = {}
    m = s.model
    for ns, key in (('iso', 'iso_path'), ('joliet', 'joliet_path')):
        if ns == 'joliet' and not m.cfg.joliet:
            continue
        for p, node in m.ns[ns].items():
            try:
                rec = s.iso.get_record(**{key: p})
            except Exception as e:
                vio.append({'key': 'query:get_record-raises:%s' % type(e).__name__, 'detail': '%s %s: %s' % (ns, p, e)})
                continue
            reported[(ns, p)] = (rec.extent_location(), rec.get_data_length(), node.kind)
    img, oc = s.write()
    if not oc.ok:
        return [{'key': 'write-raises:%s@%s' % (oc.exc_class, oc.exc_where), 'detail': oc.exc_msg}]
    dec = ecma119.decode(img.getvalue())
    for (ns, p), (ext, ln, kind) in reported.items():
        vol = dec.pvd if ns == 'iso' else dec.joliet
        node = vol.tree.get(p) if vol is not None else None
        if node is None:
            if m.rr_moved is None:
                vio.append({'key': 'query:entry-missing-in-image', 'detail': '%s %s' % (ns, p)})
            continue
        counters['query_entries_checked'] = counters.get('query_entries_checked', 0) + 1
        first = node.recs[0]
        if kind == 'dir':
            if ext != node.extent or ln != node.length:
                vio.append({'key': 'query:dir-location', 'detail': '%s %s: get_record says extent %d len %d, image has %d/%d' % (ns, p, ext, ln, node.extent, node.length)})
        elif kind == 'file':
            if first.data_length[0] != 0 and ext != first.extent[0]:
                vio.append({'key': 'query:file-extent', 'detail': '%s %s: get_record says extent %d, image has %d' % (ns, p, ext, first.extent[0])})
            if ln != first.data_length[0]:
                vio.append({'key': 'query:file-length', 'detail': '%s %s: get_record says %d, image has %d' % (ns, p, ln, first.data_length[0])})
    return vio


def check(cfg, ops, seed, schedules, counters=None):
    counters = counters if counters is not None else {}
    vio = []
    base, err, s0 = run_schedule(cfg, ops, seed, [])
    s0.close()
    if base is None:
        return [{'key': 'base-failed', 'detail': err}]
    for name, sched, ac in schedules:
        got, err, s = run_schedule(cfg, ops, seed, sched, always_consistent=ac)
        if got is None:
            vio.append({'key': 'schedule-failed:%s' % name.split(':')[0], 'detail': err})
            s.close()
            continue
        counters['schedules_compared'] = counters.get('schedules_compared', 0) + 1
        if got != base:
            dec = common.decode_all(base)
            idx = common.ExtentIndex(common.full_extent_map(dec))
            if len(got) != len(base):
                vio.append({'key': 'bytes:%s:length' % name.split(':')[0], 'detail': 'lazy %d bytes, %s %d bytes' % (len(base), name, len(got))})
            for a, b in common.diff_ranges(base, got, limit=8):
                hit = idx.locate(a)
                kind = hit[0] if hit else ('system-area' if a < 32768 else 'unmapped')
                vio.append({'key': 'bytes:%s:%s' % (name.split(':')[0], kind), 'detail': 'schedule %s: bytes %d..%d differ from the lazy run' % (name, a, b)})
        else:
            # last schedule also decides the query clause
            pass
        s.close()
    # query clause on a fresh lazy run
    env.reset(seed)
    s = driver.replay(cfg, ops, seed)
    vio.extend(query_clause(s, counters))
    s.close()
    return vio


def schedules_for(rng, ops, tier):
    out = [('always', [], True)]
    n = 3 if tier == 'quick' else 5
    for k in range(n):
        ni = rng.choice([2, 3, 5, 8])
        sched = make_schedule(rng, ops, None, ni)
        out.append(('inserted:%s' % ','.join('%d%s' % (p, q[0]) for p, q in sched), sched, rng.random() < 0.2))
    return out


def run_case(i, seed, tier):
    if i >= plan(tier):
        from harness import suite
        return suite.run_twin_slot(PROPERTY, i - plan(tier))
    from harness.props import c01
    counters = {}
    g = Gen(seed * 1000003 + i)
    cfg = g.cfg(index=i + seed * 13)
    profile = common.PROFILES[(i // 2) % len(common.PROFILES)]
    nops = g.rng.choice([3, 6, 10, 16, 24])
    if i % 5 == 2 and i % 10 != 7:
        # El Torito: boot record, catalog, boot info table, hidden boot files
        from harness.props import c11
        cfg, pre, boot, post = c11.build(seed * 1000003 + i, tier)
        ops = pre + boot + post
        profile = 'boot'
    elif i % 10 == 7:
        # isohybrid: MBR/GPT/APM data is computed when extents are assigned
        from harness.props import c12
        cfg, ops = c12.build(seed * 1000003 + i, valid_only=True)
        ops = [o for o in ops if o['op'] not in ('reopen', 'force_consistency', 'q_write')]
        profile = 'hybrid'
    elif i % 12 == 5:
        # Rock Ridge continuation blocks created and emptied between recomputations: 14 long names
        # fill one block; entries of the later block(s) are removed again
        g2 = Gen(seed * 1000003 + i, 'names')
        cfg = g2.cfg(index=i + seed * 13, require=lambda c: c.rr is not None)
        h = common.History(cfg, seed * 1000003 + i, 'names', max_size=3000)
        n_ = g2.rng.choice([15, 16, 18, 29, 31])
        added = []
        for k in range(n_):
            op = {'op': 'add_fp', 'cid': 400 + k, 'length': g2.rng.choice([0, 5, 2049]), 'iso_path': '/' + h.gen.iso_file_name(cfg.level),
                  'rr_name': ('n%02d-' % k) + 'x' * g2.rng.choice([240, 244, 248])}
            if h.apply(op).ok:
                added.append(op['iso_path'])
        victims = added[14:] if g2.rng.random() < 0.6 else g2.rng.sample(added, min(len(added), g2.rng.choice([1, 3, 6])))
        for p_ in victims[:g2.rng.choice([1, 2, 4, 20])]:
            h.apply({'op': 'rm_file', 'iso_path': p_})
        h.extend(g2.rng.choice([0, 2]))
        ops = list(h.ops)
        h.sess.close()
        profile = 'ce-blocks'
    else:
        h = common.History(cfg, seed * 1000003 + i, profile, max_size=10000)
        h.extend(nops)
        ops = list(h.ops)
        h.sess.close()
    if profile in ('boot', 'hybrid') and (i // 10) % 2 == 0:
        # a removal as the last layout-changing edit (validated by replaying through a History)
        used = {o.get('bootfile_path') for o in ops if o['op'] == 'add_eltorito'}
        cands = [o['iso_path'] for o in ops if o['op'] == 'add_fp' and o.get('iso_path') and o['iso_path'] not in used]
        gone = {o.get('iso_path') for o in ops if o['op'] in ('rm_file', 'rm_hard_link')}
        cands = [p_ for p_ in cands if p_ not in gone]
        if cands:
            hh = common.History(cfg, seed * 1000003 + i, 'std')
            okay = all(hh.apply(o).ok for o in ops)
            if okay and hh.apply({'op': 'rm_file', 'iso_path': cands[-1]}).ok:
                ops = list(hh.ops)
            hh.sess.close()
    counters['profile:%s' % profile] = 1
    rng = random.Random(seed * 7919 + i)
    scheds = schedules_for(rng, ops, tier)
    vio = c01.dedup(check(cfg, ops, seed * 1000003 + i, scheds, counters))
    sj = [[n, s, a] for n, s, a in scheds]
    return {'verdict': 'violated' if vio else 'held',
            'violations': [dict(v, replay=common.replay_doc(PROPERTY, cfg, ops, seed * 1000003 + i, schedules=sj)) for v in vio],
            'nontrivial': len(ops) >= 3 and any(len(s) >= 2 for _, s, _ in scheds),
            'shape': common.shape_of(cfg, ops, repr([n for n, _, _ in scheds])),
            'sample': {'cfg': cfg.to_json(), 'n_ops': len(ops), 'ops': common.short_ops(ops, 6), 'schedules': [n for n, _, _ in scheds]},
            'counters': counters}


def replay(doc):
    if 'suite_twin' in doc:
        from harness import suite
        return suite.replay_twin(doc)
    from harness.props import c01
    cfg, ops, seed = common.doc_cfg_ops(doc)
    scheds = [(n, [tuple(x) for x in s], a) for n, s, a in doc.get('schedules', [['always', [], True]])]
    return c01.dedup(check(cfg, ops, seed, scheds))
