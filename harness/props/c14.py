"""C14 Failure atomicity: a refused edit changes nothing."""
import random

from harness import driver, env
from harness.gen import Gen
from harness.model import join, parent_of
from harness.props import common

PROPERTY = 'C14'
LEVEL = 'fault_enumeration'
RULE = ('refusal recipes = public mutating call x cause (bad / duplicate / missing-parent name in the 1st, 2nd or 3rd namespace of the call, '
        'wrong entry kind, non-empty directory, Rock Ridge name missing / with slash / on a non-RR image, Joliet or UDF path on an image '
        'without it, over-long names, depth, El Torito: missing boot file, bad media, wrong floppy size, hdemul without MBR, 32nd section, '
        'catalog name clashes; isohybrid without El Torito / bad signature / bad geometry / mac without efi; wrong object state), each '
        'instantiated against the current model state so that it really is refused, injected at random points of random accepted '
        'histories; twin execution without the call; the image written right after the refusal, the outcomes of all later calls and the '
        'final image must be identical. distinct = (recipe, configuration class, injection context); non-trivial = the refused call had '
        'at least one namespace part that would have been accepted on its own')
ASSUMPTIONS = ['determinism shim (twin executions are byte-identical without the injected call: checked by C06)',
               'a recipe that the library accepts is not a C14 case (counted as not-refused; acceptance rules are C13)']
REQUIRED_COUNTERS = {'refusals_injected': 200, 'twin_images_compared': 200}


def plan(tier):
    return 3000 if tier == "quick" else 40000


# --------------------------------------------------------------------------
# recipes: f(g, model) -> (cause, op, multi) | None.   multi = some namespace part alone is fine
def _existing_file(model, ns):
    fs = [p for p, n in model.ns[ns].items() if n.kind == 'file' and n.cid is not None and n.cid != 'catalog']
    return fs


def _base_fp(g, model, length=100):
    cfg = model.cfg
    op = {'op': 'add_fp', 'cid': g.new_cid(), 'length': length, 'iso_path': join(g.pick_dir(model, 'iso', 5), g.iso_file_name(cfg.level))}
    if cfg.rr:
        op['rr_name'] = g.rr_name(0.05)
    if cfg.joliet:
        op['joliet_path'] = join(g.pick_dir(model, 'joliet'), g.uni_name())
    if cfg.udf:
        op['udf_path'] = join(g.pick_dir(model, 'udf'), g.udf_name())
    return op


def _base_dir(g, model):
    cfg = model.cfg
    op = {'op': 'add_directory', 'iso_path': join(g.pick_dir(model, 'iso', 4), g.iso_dir_name(cfg.level))}
    if cfg.rr:
        op['rr_name'] = g.rr_name(0.05)
    if cfg.joliet:
        op['joliet_path'] = join(g.pick_dir(model, 'joliet'), g.uni_name())
    if cfg.udf:
        op['udf_path'] = join(g.pick_dir(model, 'udf'), g.udf_name())
    return op


def r_add_dup(api):
    def f(g, m, which):
        op = _base_fp(g, m) if api == 'add_fp' else _base_dir(g, m)
        key = {'iso': 'iso_path', 'joliet': 'joliet_path', 'udf': 'udf_path'}[which]
        if key not in op:
            return None
        kind = 'file' if api == 'add_fp' else 'dir'
        ex = [p for p, n in m.ns[which].items() if n.kind == kind]
        if not ex:
            return None
        op[key] = g.rng.choice(ex)
        return ('dup-%s' % which, op, which != 'iso' or len([k for k in ('iso_path', 'joliet_path', 'udf_path') if k in op]) > 1)
    return f


def r_add_missing_parent(api):
    def f(g, m, which):
        op = _base_fp(g, m) if api == 'add_fp' else _base_dir(g, m)
        key = {'iso': 'iso_path', 'joliet': 'joliet_path', 'udf': 'udf_path'}[which]
        if key not in op:
            return None
        name = op[key].rsplit('/', 1)[1]
        op[key] = '/NOSUCH%d/%s' % (g._u(), name) if which == 'iso' else '/nosuch%d/%s' % (g._u(), name)
        return ('missing-parent-%s' % which, op, True)
    return f


def r_add_bad_name(api):
    def f(g, m, which):
        cfg = m.cfg
        op = _base_fp(g, m) if api == 'add_fp' else _base_dir(g, m)
        if which == 'iso':
            if cfg.level == 4:
                return None
            op['iso_path'] = join(parent_of(op['iso_path']), 'lower-case!' + (';1' if api == 'add_fp' else ''))
            return ('bad-name-iso', op, False)
        if which == 'joliet':
            if not cfg.joliet:
                return None
            op['joliet_path'] = join(parent_of(op['joliet_path']), 'j' * 70)
            return ('too-long-joliet', op, True)
        if which == 'joliet-nonbmp':
            # 33..64 characters outside the BMP: up to 64 characters, but more than 64 UCS-2 units
            if not cfg.joliet or not op.get('iso_path'):
                return None
            op['joliet_path'] = join(parent_of(op['joliet_path']) if op.get('joliet_path') else '/', g.rng.choice(['\U0001F600', '\U00010348']) * g.rng.choice([33, 40, 56, 60, 64]))
            return ('too-long-joliet-nonbmp', op, True)
        if which in ('joliet-empty', 'joliet-relative', 'udf-empty', 'udf-relative'):
            # a second / third path that is not an absolute path at all (empty, or without the slash)
            ns_ = which.split('-')[0]
            if not getattr(cfg, ns_) or not op.get('iso_path'):
                return None
            op['%s_path' % ns_] = '' if which.endswith('empty') else 'rel%d' % g._u()
            return ('%s-path-%s' % (ns_, which.split('-')[1]), op, True)
        if which == 'rr-missing':
            if not cfg.rr:
                return None
            op.pop('rr_name', None)
            return ('rr-name-missing', op, False)
        if which == 'rr-slash':
            if not cfg.rr:
                return None
            op['rr_name'] = 'a/b'
            return ('rr-name-slash', op, False)
        if which == 'rr-on-plain':
            if cfg.rr:
                return None
            op['rr_name'] = 'stray'
            return ('rr-name-on-non-rr', op, False)
        if which == 'joliet-on-plain':
            if cfg.joliet:
                return None
            op['joliet_path'] = '/stray'
            return ('joliet-on-non-joliet', op, True)
        if which == 'udf-on-plain':
            if cfg.udf:
                return None
            op['udf_path'] = '/stray'
            return ('udf-on-non-udf', op, True)
        if which == 'depth':
            if cfg.rr or cfg.level == 4:
                return None
            deep = [d for d in m.dirs('iso') if m.depth(d) == 7]
            if not deep:
                return None
            name = op['iso_path'].rsplit('/', 1)[1]
            op['iso_path'] = join(deep[0], name)
            return ('too-deep', op, False)
        if which == 'rr-dup':
            if not cfg.rr:
                return None
            parent = parent_of(op['iso_path'])
            sib = [n.rr_name for p, n in m.ns['iso'].items() if parent_of(p) == parent and n.rr_name and m.depth(p) % 8 != 0]
            if not sib:
                return None
            op['rr_name'] = g.rng.choice(sib)
            return ('dup-rr-name', op, False)
        if which == 'rr-too-long':
            if not cfg.rr:
                return None
            op['rr_name'] = 'r' * 2300
            return ('rr-name-too-long', op, False)
        if which in ('rr-too-long-reloc', 'iso-dup-reloc'):
            # refusal of a directory that would have to be relocated (depth 8 with Rock Ridge)
            if not cfg.rr or cfg.level == 4 or api != 'add_directory':
                return None
            deep = [d for d in m.dirs('iso') if m.depth(d) == 7]
            if not deep:
                return None
            name = op['iso_path'].rsplit('/', 1)[1]
            op['iso_path'] = join(deep[0], name)
            for k in ('joliet_path', 'udf_path'):
                op.pop(k, None)
            if which == 'rr-too-long-reloc':
                op['rr_name'] = 'r' * 2300
                return ('rr-name-too-long-relocated', op, False)
            ex = [p for p in m.dirs('iso') if parent_of(p) == deep[0]]
            if not ex:
                return None
            op['iso_path'] = ex[0]
            return ('dup-iso-relocated', op, False)
        if which == 'parent-is-file':
            files = [p for p, n in m.ns['iso'].items() if n.kind == 'file' and n.cid is not None and m.depth(p) < 6]
            if not files:
                return None
            name = op['iso_path'].rsplit('/', 1)[1]
            op['iso_path'] = files[0] + '/' + name
            for k in ('joliet_path', 'udf_path'):
                op.pop(k, None)
            return ('parent-is-a-file', op, False)
        if which == 'reloc-name-taken':
            # the name of the relocation directory is in use by a directory of the user
            if not cfg.rr or cfg.level == 4 or api != 'add_directory' or m.relocation_active():
                return None
            if '/RR_MOVED' not in m.ns['iso'] and not any(n.rr_name == 'rr_moved' and p.count('/') == 1 for p, n in m.ns['iso'].items()):
                return None
            deep = [d for d in m.dirs('iso') if m.depth(d) == 7]
            if not deep:
                return None
            name = op['iso_path'].rsplit('/', 1)[1]
            op['iso_path'] = join(deep[0], name)
            for k in ('joliet_path', 'udf_path'):
                op.pop(k, None)
            return ('relocation-name-taken', op, False)
        if which == 'file-mode-plain':
            if cfg.rr:
                return None
            op['file_mode'] = 0o100644 if api == 'add_fp' else 0o040755
            return ('file-mode-on-non-rr', op, False)
        return None
    return f


def r_rm_file(g, m, which):
    if which == 'missing':
        return ('missing', {'op': 'rm_file', 'iso_path': '/NOSUCH%d.;1' % g._u()}, False)
    if which == 'dir':
        ds = [p for p, n in m.ns['iso'].items() if n.kind == 'dir']
        if not ds:
            return None
        return ('is-directory', {'op': 'rm_file', 'iso_path': g.rng.choice(ds)}, False)
    if which == 'boot':
        if m.boot is None:
            return None
        cid = m.boot['entries'][0]['cid']
        names = [p for (ns, p) in m.names_of(cid) if ns == 'iso']
        if not names:
            return None
        return ('eltorito-referenced', {'op': 'rm_file', 'iso_path': names[0]}, False)
    if which == 'udf-missing':
        if not m.cfg.udf:
            return None
        return ('missing-udf', {'op': 'rm_file', 'udf_path': '/nosuch%d' % g._u()}, False)
    return None


def r_rm_directory(g, m, which):
    if which == 'non-empty':
        ds = [p for p, n in m.ns['iso'].items() if n.kind == 'dir' and m.children('iso', p)]
        if not ds:
            return None
        return ('non-empty', {'op': 'rm_directory', 'iso_path': g.rng.choice(ds)}, False)
    if which == 'missing':
        return ('missing', {'op': 'rm_directory', 'iso_path': '/NOSUCH%d' % g._u()}, False)
    if which == 'root':
        return ('root', {'op': 'rm_directory', 'iso_path': '/'}, False)
    if which == 'file':
        fs = _existing_file(m, 'iso')
        if not fs:
            return None
        return ('is-file', {'op': 'rm_directory', 'iso_path': g.rng.choice(fs)}, False)
    if which in ('second-missing-joliet', 'second-missing-udf'):
        ns = 'joliet' if which.endswith('joliet') else 'udf'
        if not (m.cfg.joliet if ns == 'joliet' else m.cfg.udf):
            return None
        ds = [p for p, n in m.ns['iso'].items() if n.kind == 'dir' and not m.children('iso', p) and m.depth(p) % 8 != 0]
        if not ds:
            return None
        return ('iso-ok-%s-missing' % ns, {'op': 'rm_directory', 'iso_path': g.rng.choice(ds), '%s_path' % ns: '/nosuch%d' % g._u()}, True)
    if which == 'second-nonempty-udf':
        if not m.cfg.udf:
            return None
        ds = [p for p, n in m.ns['iso'].items() if n.kind == 'dir' and not m.children('iso', p) and m.depth(p) % 8 != 0]
        us = [p for p, n in m.ns['udf'].items() if n.kind == 'dir' and m.children('udf', p)]
        if not ds or not us:
            return None
        one = [p for p in us if len(m.children('udf', p)) == 1]
        return ('iso-ok-udf-non-empty', {'op': 'rm_directory', 'iso_path': g.rng.choice(ds), 'udf_path': g.rng.choice(one or us)}, True)
    if which == 'second-nonempty-joliet':
        if not m.cfg.joliet:
            return None
        ds = [p for p, n in m.ns['iso'].items() if n.kind == 'dir' and not m.children('iso', p) and m.depth(p) % 8 != 0]
        js = [p for p, n in m.ns['joliet'].items() if n.kind == 'dir' and m.children('joliet', p)]
        if not ds or not js:
            return None
        return ('iso-ok-joliet-non-empty', {'op': 'rm_directory', 'iso_path': g.rng.choice(ds), 'joliet_path': g.rng.choice(js)}, True)
    return None


def r_hard_link(g, m, which):
    cfg = m.cfg
    fs = _existing_file(m, 'iso')
    if which == 'missing-old':
        return ('missing-old', {'op': 'add_hard_link', 'old': ('iso', '/NOSUCH%d.;1' % g._u()), 'new': ('iso', '/' + g.iso_file_name(cfg.level)), **({'rr_name': 'x'} if cfg.rr else {})}, False)
    if not fs:
        return None
    if which == 'dup-new':
        if len(fs) < 2:
            return None
        a, b = g.rng.sample(fs, 2)
        return ('dup-new', {'op': 'add_hard_link', 'old': ('iso', a), 'new': ('iso', b), **({'rr_name': 'x%d' % g._u()} if cfg.rr else {})}, False)
    if which == 'missing-parent-new':
        return ('missing-parent-new', {'op': 'add_hard_link', 'old': ('iso', fs[0]), 'new': ('iso', '/NOSUCH%d/%s' % (g._u(), g.iso_file_name(cfg.level))), **({'rr_name': 'x'} if cfg.rr else {})}, False)
    if which == 'rr-missing':
        if not cfg.rr:
            return None
        return ('rr-name-missing', {'op': 'add_hard_link', 'old': ('iso', fs[0]), 'new': ('iso', '/' + g.iso_file_name(cfg.level))}, False)
    if which == 'dup-new-udf':
        if not cfg.udf:
            return None
        us = [p for p, n in m.ns['udf'].items() if n.kind == 'file']
        if not us:
            return None
        return ('dup-new-udf', {'op': 'add_hard_link', 'old': ('iso', fs[0]), 'new': ('udf', g.rng.choice(us))}, False)
    if which == 'dup-new-joliet':
        if not cfg.joliet:
            return None
        js = [p for p, n in m.ns['joliet'].items() if n.kind == 'file']
        if not js:
            return None
        return ('dup-new-joliet', {'op': 'add_hard_link', 'old': ('iso', fs[0]), 'new': ('joliet', g.rng.choice(js))}, False)
    if which == 'old-is-dir':
        ds = [p for p, n in m.ns['iso'].items() if n.kind == 'dir']
        if not ds:
            return None
        return ('old-is-directory', {'op': 'add_hard_link', 'old': ('iso', ds[0]), 'new': ('iso', '/' + g.iso_file_name(cfg.level)), **({'rr_name': 'x%d' % g._u()} if cfg.rr else {})}, False)
    if which == 'rm-dir':
        ds = [p for p, n in m.ns['iso'].items() if n.kind == 'dir']
        if not ds:
            return None
        return ('rm_hard_link-directory', {'op': 'rm_hard_link', 'iso_path': ds[0]}, False)
    if which == 'rm-missing':
        return ('rm_hard_link-missing', {'op': 'rm_hard_link', 'iso_path': '/NOSUCH%d.;1' % g._u()}, False)
    return None


def r_symlink(g, m, which):
    cfg = m.cfg
    if which == 'no-rr-no-udf':
        if cfg.rr or cfg.udf:
            return None
        return ('no-rr-no-udf', {'op': 'add_symlink', 'symlink_path': '/S%d.;1' % g._u(), 'rr_symlink_name': 's', 'rr_path': 't'}, False)
    if not cfg.rr:
        return None
    base = {'op': 'add_symlink', 'symlink_path': join(g.pick_dir(m, 'iso', 5), g.iso_file_name(cfg.level)), 'rr_symlink_name': g.rr_name(0.02), 'rr_path': 'target'}
    if which == 'dup':
        ex = [p for p, n in m.ns['iso'].items() if n.kind != 'dir']
        if not ex:
            return None
        base['symlink_path'] = g.rng.choice(ex)
        return ('dup-iso', base, False)
    if which == 'missing-parent':
        base['symlink_path'] = '/NOSUCH%d/X.;1' % g._u()
        return ('missing-parent-iso', base, False)
    if which == 'half-rr':
        base.pop('rr_path')
        return ('rr-half-specified', base, False)
    if which in ('joliet-empty', 'joliet-relative', 'udf-empty', 'udf-relative'):
        ns_ = which.split('-')[0]
        if not getattr(cfg, ns_):
            return None
        bad_ = '' if which.endswith('empty') else 'rel%d' % g._u()
        if ns_ == 'joliet':
            base['joliet_path'] = bad_
        else:
            base['udf_symlink_path'] = bad_
            base['udf_target'] = 'target'
        return ('iso-ok-%s-path-%s' % (ns_, which.split('-')[1]), base, True)
    if which == 'joliet-dup':
        if not cfg.joliet:
            return None
        js = [p for p, n in m.ns['joliet'].items() if n.kind == 'file']
        if not js:
            return None
        base['joliet_path'] = g.rng.choice(js)
        return ('iso-ok-joliet-dup', base, True)
    if which == 'joliet-missing-parent':
        if not cfg.joliet:
            return None
        base['joliet_path'] = '/nosuch%d/x' % g._u()
        return ('iso-ok-joliet-missing-parent', base, True)
    if which == 'udf-dup':
        if not cfg.udf:
            return None
        us = [p for p, n in m.ns['udf'].items() if n.kind != 'dir']
        if not us:
            return None
        base['udf_symlink_path'] = g.rng.choice(us)
        base['udf_target'] = 'target'
        return ('iso-ok-udf-dup', base, True)
    if which == 'udf-missing-parent':
        if not cfg.udf:
            return None
        base['udf_symlink_path'] = '/nosuch%d/x' % g._u()
        base['udf_target'] = 'target'
        return ('iso-ok-udf-missing-parent', base, True)
    if which == 'target-too-long':
        base['rr_path'] = '/'.join(['c' * 250] * 12)
        return ('target-too-long', base, False)
    return None


def r_hidden(g, m, which):
    if which == 'missing':
        return ('missing', {'op': 'set_hidden', 'iso_path': '/NOSUCH%d.;1' % g._u()}, False)
    if which == 'two':
        fs = list(m.ns['iso'])
        js = list(m.ns['joliet'])
        if not fs or not js:
            return None
        return ('two-paths', {'op': 'set_hidden', 'iso_path': fs[0], 'joliet_path': js[0]}, False)
    return None


def r_eltorito(g, m, which):
    cfg = m.cfg
    fs = _existing_file(m, 'iso')
    if which == 'missing-boot-file':
        return ('missing-boot-file', {'op': 'add_eltorito', 'bootfile_path': '/NOSUCH%d.;1' % g._u()}, False)
    if which == 'rm-without':
        if m.boot is not None:
            return None
        return ('rm_eltorito-without-eltorito', {'op': 'rm_eltorito'}, False)
    if not fs:
        return None
    f = g.rng.choice(fs)
    if which == 'bad-media':
        return ('bad-media', {'op': 'add_eltorito', 'bootfile_path': f, 'media_name': 'cdrom'}, False)
    if which == 'floppy-size':
        return ('floppy-wrong-size', {'op': 'add_eltorito', 'bootfile_path': f, 'media_name': 'floppy'}, False)
    if which == 'hdemul-no-mbr':
        return ('hdemul-without-mbr', {'op': 'add_eltorito', 'bootfile_path': f, 'media_name': 'hdemul'}, False)
    if which == 'hdemul-no-mbr-bit':
        return ('hdemul-without-mbr+boot-info-table', {'op': 'add_eltorito', 'bootfile_path': f, 'media_name': 'hdemul', 'boot_info_table': True}, False)
    if which == 'joliet-cat-on-plain':
        if cfg.joliet or m.boot is not None:
            return None
        return ('joliet-catalog-on-non-joliet', {'op': 'add_eltorito', 'bootfile_path': f, 'joliet_bootcatfile': '/boot.cat'}, False)
    if which == 'udf-cat-on-plain':
        if cfg.udf or m.boot is not None:
            return None
        return ('udf-catalog-on-non-udf', {'op': 'add_eltorito', 'bootfile_path': f, 'udf_bootcatfile': '/boot.cat'}, False)
    if which == 'cat-missing-parent':
        if m.boot is not None:
            return None
        return ('catalog-missing-parent', {'op': 'add_eltorito', 'bootfile_path': f, 'bootcatfile': '/NOSUCH%d/BOOT.CAT;1' % g._u(), **({'rr_bootcatname': 'boot.cat'} if cfg.rr else {})}, False)
    if which == 'cat-dup':
        if m.boot is not None or len(fs) < 2:
            return None
        other = [x for x in fs if x != f][0]
        return ('catalog-name-dup', {'op': 'add_eltorito', 'bootfile_path': f, 'bootcatfile': other, **({'rr_bootcatname': 'boot.cat'} if cfg.rr else {})}, False)
    if which == 'cat-joliet-missing-parent':
        if m.boot is not None or not cfg.joliet:
            return None
        return ('catalog-iso-ok-joliet-missing-parent', {'op': 'add_eltorito', 'bootfile_path': f, 'joliet_bootcatfile': '/nosuch%d/boot.cat' % g._u()}, True)
    if which == 'cat-dup-bit':
        if m.boot is not None or len(fs) < 2:
            return None
        other = [x for x in fs if x != f][0]
        return ('catalog-name-dup+boot-info-table', {'op': 'add_eltorito', 'bootfile_path': f, 'bootcatfile': other, 'boot_info_table': True, **({'rr_bootcatname': 'boot.cat'} if cfg.rr else {})}, False)
    if which == '32nd':
        if m.boot is None or len(m.boot['entries']) < 32:
            return None
        return ('32nd-section', {'op': 'add_eltorito', 'bootfile_path': f}, False)
    return None


def r_isohybrid(g, m, which):
    if which == 'without-eltorito':
        if m.boot is not None:
            return None
        return ('without-eltorito', {'op': 'add_isohybrid'}, False)
    if m.boot is None:
        return None
    if which == 'bad-geometry':
        return ('bad-geometry', {'op': 'add_isohybrid', 'geometry_sectors': g.rng.choice([0, 64]), 'geometry_heads': g.rng.choice([0, 257, 64])}, False)
    if which == 'mac-without-efi':
        return ('mac-without-efi', {'op': 'add_isohybrid', 'mac': True, 'efi': False}, False)
    if which == 'bad-part-entry':
        return ('bad-part-entry', {'op': 'add_isohybrid', 'part_entry': g.rng.choice([0, 5])}, False)
    return None


def r_state(g, m, which):
    if which == 'new-twice':
        return ('new-on-initialized', {'op': 'x_new'}, False)
    if which == 'open-twice':
        return ('open-on-initialized', {'op': 'x_open'}, False)
    if which == 'relocated-name':
        if not m.cfg.rr:
            return ('set_relocated_name-on-non-rr', {'op': 'set_relocated_name', 'name': 'XX', 'rr_name': 'xx'}, False)
        return None
    if which == 'relocated-name-bad-iso':
        # refused for its ISO9660 name; the Rock Ridge name given with it must not stick
        if not m.cfg.rr or m.cfg.level == 4 or m.relocation_active() or getattr(m, 'rr_moved_name', None):
            return None
        bad = 'lower-case' if m.cfg.level > 1 else 'TOOLONGNAME'
        return ('set_relocated_name-bad-iso-name', {'op': 'set_relocated_name', 'name': bad, 'rr_name': 'leaked.name'}, False)
    if which == 'new-bad-args':
        return ('new-refused-then-new', {'op': 'x_new_bad'}, False)
    if which == 'query-missing':
        return ('query-missing-path', {'op': 'q_get_record', 'key': 'iso_path', 'path': '/NOSUCH%d.;1' % g._u()}, False)
    if which == 'read-dir':
        ds = [p for p, n in m.ns['iso'].items() if n.kind == 'dir']
        if not ds:
            return None
        return ('read-directory', {'op': 'q_read', 'key': 'iso_path', 'path': ds[0]}, False)
    return None


RECIPES = []
for api in ('add_fp', 'add_directory'):
    for w in ('iso', 'joliet', 'udf'):
        RECIPES.append((api, r_add_dup(api), w))
        RECIPES.append((api, r_add_missing_parent(api), w))
    for w in ('iso', 'joliet', 'rr-missing', 'rr-slash', 'rr-on-plain', 'joliet-on-plain', 'udf-on-plain', 'depth', 'rr-too-long', 'rr-dup', 'file-mode-plain'):
        RECIPES.append((api, r_add_bad_name(api), w))
for w in ('rr-too-long-reloc', 'iso-dup-reloc', 'reloc-name-taken'):
    RECIPES.append(('add_directory', r_add_bad_name('add_directory'), w))
for api in ('add_fp', 'add_directory'):
    for w in ('joliet-empty', 'joliet-relative', 'udf-empty', 'udf-relative', 'joliet-nonbmp'):
        RECIPES.append((api, r_add_bad_name(api), w))
for w in ('joliet-empty', 'joliet-relative', 'udf-empty', 'udf-relative'):
    RECIPES.append(('add_symlink', r_symlink, w))
for api in ('add_fp', 'add_directory'):
    RECIPES.append((api, r_add_bad_name(api), 'parent-is-file'))
for w in ('missing', 'dir', 'boot', 'udf-missing'):
    RECIPES.append(('rm_file', r_rm_file, w))
for w in ('non-empty', 'missing', 'root', 'file', 'second-missing-joliet', 'second-missing-udf', 'second-nonempty-joliet', 'second-nonempty-udf'):
    RECIPES.append(('rm_directory', r_rm_directory, w))
for w in ('missing-old', 'dup-new', 'missing-parent-new', 'rr-missing', 'dup-new-udf', 'dup-new-joliet', 'old-is-dir', 'rm-dir', 'rm-missing'):
    RECIPES.append(('add_hard_link', r_hard_link, w))
for w in ('no-rr-no-udf', 'dup', 'missing-parent', 'half-rr', 'joliet-dup', 'joliet-missing-parent', 'udf-dup', 'udf-missing-parent', 'target-too-long'):
    RECIPES.append(('add_symlink', r_symlink, w))
for w in ('missing', 'two'):
    RECIPES.append(('set_hidden', r_hidden, w))
for w in ('missing-boot-file', 'rm-without', 'bad-media', 'floppy-size', 'hdemul-no-mbr', 'hdemul-no-mbr-bit', 'joliet-cat-on-plain', 'udf-cat-on-plain',
          'cat-missing-parent', 'cat-dup', 'cat-joliet-missing-parent', 'cat-dup-bit', '32nd'):
    RECIPES.append(('add_eltorito', r_eltorito, w))
for w in ('without-eltorito', 'bad-geometry', 'mac-without-efi', 'bad-part-entry'):
    RECIPES.append(('add_isohybrid', r_isohybrid, w))
for w in ('new-twice', 'open-twice', 'relocated-name', 'query-missing', 'read-dir', 'new-bad-args', 'relocated-name-bad-iso'):
    RECIPES.append(('state', r_state, w))


def do_step(sess, op):
    """Session.step plus the two state recipes that are not ordinary ops."""
    if op['op'] == 'x_new':
        try:
            sess.iso.new()
            return driver.Outcome(True)
        except Exception as e:
            return driver.Outcome(False, type(e).__name__, str(e), driver.innermost_pycdlib_frame(e))
    if op['op'] == 'x_new_bad':
        # a fresh object: new() refused for one argument, then a plain new() and an edit that is
        # legal on a plain image.  (Independent of the session: the outcome of the *sequence* is
        # what counts, reported as a refusal whose residue shows in the follow-up.)
        import io, pycdlib
        o = pycdlib.PyCdlib()
        try:
            o.new(rock_ridge='1.09', joliet=3, vol_ident='X' * 40)
            return driver.Outcome(True)
        except Exception as e:
            first = driver.Outcome(False, type(e).__name__, str(e), driver.innermost_pycdlib_frame(e))
        try:
            o.new()
            o.add_fp(io.BytesIO(b'x'), 1, '/A.;1')
            o.write_fp(io.BytesIO())
            o.close()
        except Exception as e:
            return driver.Outcome(False, 'residue-of-refused-new:%s' % type(e).__name__, str(e), driver.innermost_pycdlib_frame(e))
        return first
    if op['op'] == 'x_open':
        import io
        try:
            sess.iso.open_fp(io.BytesIO(b'\x00' * 40000))
            return driver.Outcome(True)
        except Exception as e:
            return driver.Outcome(False, type(e).__name__, str(e), driver.innermost_pycdlib_frame(e))
    return sess.step(op, apply_model=False) if op['op'] not in driver.Session.MODEL_OPS else sess.step(op)


def run_with(cfg, ops, seed, inject_at=None, bad=None):
    """Returns (outcome sigs after the injection point, image right after the injection, final image, refusal outcome)."""
    env.reset(seed)
    s = driver.Session(cfg, seed).new()
    sigs = []
    mid = None
    refusal = None
    for i, op in enumerate(ops):
        if inject_at == i:
            if bad is not None:
                refusal = do_step(s, bad)
            img, oc = s.write()
            mid = img.getvalue() if oc.ok else ('write-fails', oc.sig())
        s, out = driver.advance(s, op)
        if inject_at is not None and i >= inject_at:
            sigs.append(out.sig())
    if inject_at == len(ops):
        if bad is not None:
            refusal = do_step(s, bad)
        img, oc = s.write()
        mid = img.getvalue() if oc.ok else ('write-fails', oc.sig())
    img, oc = s.write()
    final = img.getvalue() if oc.ok else ('write-fails', oc.sig())
    s.close()
    return sigs, mid, final, refusal


def residue_kinds(a, b):
    if isinstance(a, tuple) or isinstance(b, tuple):
        return 'write-fails:%s' % (a[1] if isinstance(a, tuple) else b[1])
    kinds = []
    if len(a) != len(b):
        kinds.append('size')
    try:
        dec = common.decode_all(b)
        idx = common.ExtentIndex(common.full_extent_map(dec))
        n = min(len(a), len(b))
        for s, e in common.diff_ranges(a[:n], b[:n], limit=12):
            hit = idx.locate(s)
            k = hit[0] if hit else ('system-area' if s < 32768 else 'unmapped')
            if k.startswith('vd-'):
                k = 'vd'
            if k not in kinds:
                kinds.append(k)
    except Exception:
        kinds.append('undecodable')
    return 'residue:' + '+'.join(sorted(kinds)[:4])


def check(cfg, ops, seed, inject_at, bad, api, cause, counters):
    vio = []
    sigs_b, mid_b, final_b, _ = run_with(cfg, ops, seed, inject_at, None)
    sigs_a, mid_a, final_a, refusal = run_with(cfg, ops, seed, inject_at, bad)
    if refusal is None or refusal.ok:
        counters['not_refused'] = counters.get('not_refused', 0) + 1
        counters['not_refused:%s:%s' % (api, cause)] = 1
        return vio, False
    counters['refusals_injected'] = counters.get('refusals_injected', 0) + 1
    if (refusal.exc_class or '').startswith('residue-of-refused-new'):
        return [{'key': '%s:%s:later-differs' % (api, cause), 'detail': 'after new() was refused (bad volume identifier), a plain new() + add_fp + write on the same object failed: %s: %s' % (refusal.exc_class, refusal.exc_msg)}], True
    counters['refused:%s' % refusal.exc_class] = counters.get('refused:%s' % refusal.exc_class, 0) + 1
    counters['twin_images_compared'] = counters.get('twin_images_compared', 0) + 2
    base = '%s:%s' % (api, cause)
    if mid_a != mid_b:
        rk = residue_kinds(mid_a, mid_b)
        vio.append({'key': '%s:%s' % (base, 'write-fails' if rk.startswith('write-fails') else 'residue'), 'kinds': rk, 'detail': 'image written right after the refused %s (%s: %s) differs from the twin that never made the call [%s]' % (bad['op'], refusal.exc_class, (refusal.exc_msg or '')[:100], rk)})
    elif sigs_a != sigs_b:
        j = next(i for i in range(len(sigs_a)) if sigs_a[i] != sigs_b[i])
        vio.append({'key': '%s:later-differs' % base, 'detail': 'after the refused call, later op %d (%s) ends %s instead of %s' % (j, ops[inject_at + j]['op'], sigs_a[j], sigs_b[j])})
    elif final_a != final_b:
        vio.append({'key': '%s:final-residue' % base, 'kinds': residue_kinds(final_a, final_b), 'detail': 'final image differs from the twin although the image right after the refusal did not'})
    return vio, True


def run_case(i, seed, tier):
    from harness.props import c01
    counters = {}
    cs = seed * 1000003 + i
    g = Gen(cs)
    rng = g.rng
    api, fn, which = RECIPES[i % len(RECIPES)]
    need = {'joliet': lambda c: c.joliet, 'udf': lambda c: c.udf}
    def cfg_ok(c):
        if 'joliet' in which and 'plain' not in which and not c.joliet:
            return False
        if 'udf' in which and 'plain' not in which and which != 'no-rr-no-udf' and not c.udf:
            return False
        if which in ('rr-missing', 'rr-slash', 'rr-too-long', 'half-rr', 'dup', 'missing-parent', 'target-too-long') and api in ('add_symlink',) and not c.rr:
            return False
        if which in ('rr-missing', 'rr-slash', 'rr-too-long', 'rr-dup') and not c.rr:
            return False
        if which == 'relocated-name-bad-iso' and (not c.rr or c.level == 4):
            return False
        if which in ('rr-too-long-reloc', 'iso-dup-reloc', 'reloc-name-taken') and (not c.rr or c.level == 4):
            return False
        if which in ('rr-on-plain', 'file-mode-plain') and c.rr:
            return False
        if which == 'joliet-on-plain' and c.joliet:
            return False
        if which == 'udf-on-plain' and c.udf:
            return False
        if which == 'depth' and (c.rr or c.level == 4):
            return False
        if which == 'no-rr-no-udf' and (c.rr or c.udf):
            return False
        return True
    cfg = g.cfg(index=(i // len(RECIPES)) + seed * 41, require=cfg_ok)
    # history
    if api == 'add_isohybrid' and which in ('bad-geometry', 'mac-without-efi', 'bad-part-entry'):
        # the boot file must carry the isohybrid signature, or the call is refused before its
        # parameters are looked at: the El Torito part of a hybrid history, without the hybrid call
        from harness.props import c12
        cfg, hops = c12.build(cs, valid_only=True)
        cut = next((k for k, o in enumerate(hops) if o['op'] == 'add_isohybrid'), len(hops))
        h = common.History(cfg, cs, 'std', max_size=3000)
        for o in hops[:cut]:
            if o['op'] not in ('reopen', 'force_consistency', 'q_write'):
                h.apply(o)
        h.extend(rng.choice([0, 2]))
    elif api in ('add_eltorito', 'add_isohybrid') and which not in ('missing-boot-file', 'rm-without', 'without-eltorito') and (which == '32nd' or rng.random() < 0.5):
        from harness.props import c11
        h = common.History(cfg, cs, 'std', max_size=3000)
        h.extend(rng.choice([2, 6]))
        nsec = 32 if which == '32nd' else rng.choice([1, 2])
        for k in range(nsec):
            bop = c11.boot_file_op(h.gen, rng, h.sess.model, 'noemul')
            if h.apply(bop).ok:
                h.apply({'op': 'add_eltorito', 'bootfile_path': bop['iso_path'], 'boot_load_size': 4})
        h.extend(rng.choice([0, 3]))
    else:
        h = common.History(cfg, cs, rng.choice(['std', 'grow', 'churn']), max_size=3000, max_depth=7 if which == 'depth' else None)
        if which == 'reloc-name-taken':
            # (either of its two names: the ISO9660 one, or only the Rock Ridge one)
            x_ = rng.random()
            if x_ < 0.4:
                h.apply({'op': 'add_directory', 'iso_path': '/RR_MOVED', 'rr_name': 'users-own'})
            elif x_ < 0.7:
                h.apply({'op': 'add_directory', 'iso_path': '/USERSOWN', 'rr_name': 'rr_moved'})
            else:
                h.apply({'op': 'add_fp', 'cid': h.gen.new_cid(), 'length': 12, 'iso_path': '/USERSOWN.;1', 'rr_name': 'rr_moved'})
        if which in ('depth', 'rr-too-long-reloc', 'iso-dup-reloc', 'reloc-name-taken'):
            p = ''
            for d in range(7):
                p = p + '/' + h.gen.iso_dir_name(cfg.level)
                h.apply(dict({'op': 'add_directory', 'iso_path': p}, **({'rr_name': h.gen.rr_name(0)} if cfg.rr else {})))
            if which == 'iso-dup-reloc' or (which == 'rr-too-long-reloc' and rng.random() < 0.5):
                # a relocated directory exists already (so does the relocation directory)
                h.apply({'op': 'add_directory', 'iso_path': p + '/' + h.gen.iso_dir_name(cfg.level), 'rr_name': h.gen.rr_name(0)})
        h.extend(rng.choice([3, 8, 16]))
    ops = list(h.ops)
    h.sess.close()
    # injection point and instantiation against the model state at that point
    inject_at = rng.randint(max(0, len(ops) - 6), len(ops)) if which in ('32nd', 'depth', 'rr-too-long-reloc', 'iso-dup-reloc', 'reloc-name-taken') else rng.randint(0, len(ops))
    if api != 'state' and inject_at >= 2 and rng.random() < 0.25:
        # the refusal hits an object that opened a mastered image (parsed state)
        ops.insert(rng.randint(1, inject_at), {'op': 'reopen'})
        inject_at += 1
        counters['refusals_on_reopened'] = 1
    env.reset(cs)
    s = driver.Session(cfg, cs).new()
    for op in ops[:inject_at]:
        s, _o = driver.advance(s, op)
    g2 = Gen(cs + 17)
    g2.uniq = h.gen.uniq + 500
    g2.next_cid = h.gen.next_cid + 500
    inst = fn(g2, s.model, which)
    if inst is not None and api == 'add_eltorito' and inst[1].get('bootfile_path') and rng.random() < 0.6:
        # later behaviour that depends on what a refused add_eltorito may have left behind: the
        # would-be boot file loses all its names (its content must be released in both runs)
        node = s.model.ns['iso'].get(inst[1]['bootfile_path'])
        if node is not None and node.kind == 'file' and node.cid is not None and not s.model.boot_refs(node.cid):
            tail = [{'op': 'rm_hard_link', '%s_path' % ns_: p_} for ns_, p_ in s.model.names_of(node.cid)]
            ops = ops[:inject_at] + tail + [o for o in ops[inject_at:] if o['op'] not in ('add_eltorito',)]
            counters['eltorito_refusal_followed_by_unlink'] = 1
    if inst is not None and which == 'relocated-name-bad-iso':
        # what the leaked name would show in: the relocation directory of a later deep directory
        tail = []
        p_ = ''
        for d_ in range(8):
            p_ += '/RL%d' % d_
            tail.append({'op': 'add_directory', 'iso_path': p_, 'rr_name': 'rl%d' % d_})
        ops = ops[:inject_at] + tail + ops[inject_at:]
    if inst is not None and api == 'add_hard_link' and inst[1].get('old') and rng.random() < 0.6:
        # later behaviour: the file the refused link pointed at is removed (all names, or by rm_file)
        ons_, op_ = inst[1]['old']
        node = s.model.ns[ons_].get(op_)
        if node is not None and node.kind == 'file' and node.cid is not None and node.cid != 'catalog' and not s.model.boot_refs(node.cid):
            if rng.random() < 0.5:
                tail = [{'op': 'rm_file', '%s_path' % ons_: op_}]
            else:
                tail = [{'op': 'rm_hard_link', '%s_path' % n2: p2} for n2, p2 in s.model.names_of(node.cid)]
            ops = ops[:inject_at] + tail + ops[inject_at:]
            counters['hard_link_refusal_followed_by_removal'] = 1
    s.close()
    if inst is None:
        return {'verdict': 'held', 'violations': [], 'nontrivial': False, 'shape': 'na:%s:%s' % (api, which), 'sample': None,
                'counters': {'recipe_not_applicable': 1}}
    cause, bad, multi = inst
    vio, refused = check(cfg, ops, cs, inject_at, bad, api, cause, counters)
    vio = c01.dedup(vio)
    counters['recipes_instantiated'] = 1
    doc = common.replay_doc(PROPERTY, cfg, ops, cs, inject_at=inject_at, bad=driver.ops_to_json([bad])[0], api=api, cause=cause)
    return {'verdict': 'violated' if vio else 'held', 'violations': [dict(v, replay=doc) for v in vio],
            'nontrivial': bool(multi and refused), 'shape': '%s:%s:%s:%d' % (api, cause, 'j' * bool(cfg.joliet) + 'r' * bool(cfg.rr) + 'u' * cfg.udf, inject_at == len(ops)),
            'sample': {'recipe': '%s:%s' % (api, cause), 'cfg': cfg.to_json(), 'bad_call': common.short_ops([bad])[0], 'inject_at': inject_at, 'history_len': len(ops)},
            'counters': counters}


def replay(doc):
    from harness.props import c01
    cfg, ops, seed = common.doc_cfg_ops(doc)
    bad = driver.ops_from_json([doc['bad']])[0]
    vio, _ = check(cfg, ops, seed, min(doc['inject_at'], len(ops)), bad, doc['api'], doc['cause'], {})
    return c01.dedup(vio)
