"""C12 Hybrid (MBR/GPT/APM) boot data is consistent with the image it describes."""
import random

from harness import driver, env
from harness.gen import Gen
from harness.indep import ecma119, eltorito as iet, hybrid as ihy
from harness.model import Cfg, join
from harness.props import common, c11

PROPERTY = 'C12'
LEVEL = 'exploration'
RULE = ('hybrid images: random pre-history, boot file with the isohybrid signature, add_eltorito(load size 4), optional EFI sections '
        '(one or two, of different sizes), add_isohybrid with geometry sweep (sectors 1..63 x heads {1,2,15,16,64,255,256}), partition '
        'entry 1-4, offsets, types, mbr id, efi/mac combinations, edits that move the boot files before mastering; tiny geometries put '
        'every image beyond 1024 cylinders. harness/indep/hybrid.py decodes MBR/GPT/APM: signature, exactly one active partition, CHS '
        'geometry and size covering the padded image, boot address = 4 x boot file sector, GPT header/array CRCs, primary/backup mirror, '
        'partitions delimiting the El Torito images, padding to whole cylinders; the ISO part is compared with the twin without '
        'add_isohybrid (bytes beyond the system area, up to the declared size). distinct = (configuration, geometry, efi/mac, '
        'sections); non-trivial = efi or mac with sections of different sizes, or cylinder count > 1024')
ASSUMPTIONS = ['harness/indep/hybrid.py and eltorito.py are the trusted readers', 'determinism shim for the twin run']
REQUIRED_COUNTERS = {'hybrid_images_decoded': 50, 'twin_runs': 20}


def plan(tier):
    return 400 if tier == 'quick' else 6000


# second workload: the hybrid images the repository's own tests master (harness/suite.py)
SUITE_TIERS = ('quick', 'thorough')


def suite_oracle(data):
    hy = ihy.decode(data)
    return [{'key': k, 'detail': d} for k, d in hy.problems] if hy.present else []


def build(cs, valid_only=False):
    g = Gen(cs, 'std')
    rng = g.rng
    cfg = g.cfg(index=cs)
    h = common.History(cfg, cs, rng.choice(['std', 'grow']), max_size=3000)
    h.extend(rng.choice([0, 3, 8]))
    m = h.sess.model
    def names(cid_tag):
        d = {'iso_path': join(g.pick_dir(m, 'iso', 4), h.gen.iso_file_name(cfg.level))}
        if cfg.rr:
            d['rr_name'] = h.gen.rr_name(0.02)
        if cfg.joliet and rng.random() < 0.5:
            d['joliet_path'] = join('/', h.gen.uni_name())
        if cfg.udf and rng.random() < 0.5:
            d['udf_path'] = join('/', h.gen.udf_name())
        return d
    blen = rng.choice([2048, 2049, 4096, 10000, 70])
    bdata = bytearray(random.Random(cs).randbytes(max(blen, 0x44)))
    bdata[0x40:0x44] = b'\xfb\xc0\x78\x70'
    boot = dict({'op': 'add_fp', 'cid': h.gen.new_cid(), 'length': len(bdata), 'data': bytes(bdata)}, **names('b'))
    h.apply(boot)
    h.apply({'op': 'add_eltorito', 'bootfile_path': boot['iso_path'], 'boot_load_size': 4, 'boot_info_table': rng.random() < 0.3})
    if rng.random() < 0.3:
        # a further x86 section entry whose file is laid out after the default boot file: the MBR
        # keeps pointing at the default entry's file
        x = dict({'op': 'add_fp', 'cid': h.gen.new_cid(), 'length': rng.choice([2048, 3000])}, **names('x'))
        if h.apply(x).ok:
            h.apply({'op': 'add_eltorito', 'bootfile_path': x['iso_path'], 'platform_id': 0})
    n_efi = rng.choice([0, 0, 1, 1, 2])
    efi_files = []
    for k in range(n_efi):
        ln = rng.choice([2048, 7000, 21000, 4096, 100])
        e = dict({'op': 'add_fp', 'cid': h.gen.new_cid(), 'length': ln}, **names('e'))
        if h.apply(e).ok:
            h.apply({'op': 'add_eltorito', 'bootfile_path': e['iso_path'], 'efi': True, 'platform_id': 0xef})
            efi_files.append(e)
    hy = {'op': 'add_isohybrid'}
    if rng.random() < 0.7:
        hy['geometry_sectors'] = rng.choice([1, 2, 17, 32, 62, 63])
        hy['geometry_heads'] = rng.choice([1, 2, 15, 16, 64, 255, 256])
    if rng.random() < 0.5:
        hy['part_entry'] = rng.choice([1, 2, 3, 4])
    if rng.random() < 0.3:
        hy['part_offset'] = rng.choice([0, 1, 63, 64, 300, 2048, 5000]) if not valid_only else rng.choice([0, 1, 7, 63])
    if not valid_only and rng.random() < 0.12:
        # a partition that starts in cylinder 256 or later of a small geometry (the start CHS
        # needs the two high cylinder bits); the ISO is made large enough to contain the offset
        gs_, gh_ = rng.choice([1, 2, 3]), rng.choice([1, 2, 3])
        hy['geometry_sectors'], hy['geometry_heads'] = gs_, gh_
        hy['part_offset'] = gs_ * gh_ * rng.choice([256, 257, 300, 511, 512, 700, 1023])
        filler = {'op': 'add_fp', 'cid': h.gen.new_cid(), 'length': hy['part_offset'] * 512 + rng.choice([5000, 100000]),
                  'iso_path': '/ZFILL' + (';1' if cfg.level < 4 else '')}
        if cfg.rr:
            filler['rr_name'] = 'zfill'
        h.apply(filler)
    if rng.random() < 0.4:
        hy['mbr_id'] = rng.choice([0, 1, 0xdeadbeef, 0xffffffff])
    if rng.random() < 0.3:
        hy['part_type'] = rng.choice([0, 0x17, 0x83])
    n_ok = sum(1 for o in h.ops if o['op'] == 'add_eltorito' and o.get('efi'))
    if valid_only:
        # the documented combinations: efi needs exactly one EFI section, mac two
        if n_ok == 1:
            hy['efi'] = True
        elif n_ok == 2:
            hy['efi'] = True
            hy['mac'] = True
        if hy.get('efi') and hy.get('part_entry') == 2 or hy.get('mac') and hy.get('part_entry') == 3:
            hy['part_entry'] = 1
        if hy.get('mac'):
            hy.pop('part_type', None)
    elif n_efi >= 1 and rng.random() < 0.8:
        hy['efi'] = True
        if n_efi >= 2 and rng.random() < 0.7:
            hy['mac'] = True
    if hy.get('efi') and rng.random() < 0.35:
        # steer the volume size so that the room between its end and the next cylinder boundary is
        # about what the backup GPT needs (32 sectors of partition entries + 1 header sector = 16896
        # bytes): 0, just below, exactly the entries alone, just above
        cyl = hy.get('geometry_sectors', 32) * hy.get('geometry_heads', 64) * 512
        if cyl >= 32768 and cyl % 2048 == 0:
            out = h.apply({'op': 'q_write'})
            if out.ok and isinstance(out.result, int):
                room = rng.choice([0, 2048, 14336, 16384, 16384, 18432])
                want = (cyl - room - out.result) % cyl          # bytes to add
                # one more record in the root directory never needs a further sector here unless the
                # root is full; the check does not depend on the steering being exact
                if want >= 2048:
                    fl = {'op': 'add_fp', 'cid': h.gen.new_cid(), 'length': want - rng.choice([0, 1, 2047]),
                          'iso_path': '/ZSTEER' + (';1' if cfg.level < 4 else '')}
                    if cfg.rr:
                        fl['rr_name'] = 'zsteer'
                    h.apply(fl)
    pre_hybrid = len(h.ops)
    # hybridisation directly after a consistency point (nothing else marks the layout dirty), or
    # of an image that was mastered before and opened again
    x = rng.random()
    marker = None
    if x < 0.15:
        h.apply({'op': 'force_consistency'})
    elif x < 0.25:
        h.apply({'op': 'q_write'})
    elif x < 0.45:
        marker = len(h.ops)
    h.apply(hy)
    # edits that move the boot files
    if marker is None:
        y = rng.random()
        if y < 0.35:
            # the hybrid data was computed once (a write, a query, or a reopen of the mastered hybrid
            # image); later edits grow or shrink the ISO, possibly without moving the boot images
            z = rng.random()
            if z < 0.4:
                h.apply({'op': 'q_write'})
            elif z < 0.6:
                h.apply({'op': 'force_consistency'})
            else:
                h.reopen(reuse=rng.random() < 0.3)
            for _ in range(rng.choice([1, 2, 4])):
                big = {'op': 'add_fp', 'cid': h.gen.new_cid(), 'length': rng.choice([1, 40000, 700000, 1200000]),
                       'iso_path': join('/', 'ZZ' + h.gen.iso_file_name(cfg.level)[:6].lstrip('.') + (';1' if cfg.level < 4 else ''))}
                if cfg.rr:
                    big['rr_name'] = h.gen.rr_name(0)
                h.apply(big)
            h.extend(rng.choice([0, 2]))
        else:
            h.extend(rng.choice([0, 0, 3, 8]))
    if not valid_only and marker is None and rng.random() < 0.15:
        # taken back again (and possibly requested once more)
        h.apply({'op': 'rm_isohybrid'})
        if rng.random() < 0.4:
            h.apply(hy)
    ops = list(h.ops)
    if marker is not None:
        ops.insert(marker, {'op': 'reopen'})
    h.sess.close()
    return cfg, ops


def check(cfg, ops, seed, counters):
    from harness.props import c01
    vio = []
    # a quarter of the cases on objects that keep the layout consistent after every call
    ac = seed % 4 == 2
    if ac:
        counters['always_consistent_cases'] = 1
    sess = driver.replay(cfg, ops, seed, always_consistent=ac)
    if getattr(sess, 'reopen_failed', None):
        sess.close()
        return [{'key': 'reopen-before-hybrid-fails', 'detail': sess.reopen_failed}]
    m = sess.model
    n_efi_sections = sum(1 for e in (m.boot or {'entries': []})['entries'][1:] if e['efi'])
    if m.hybrid is not None:
        need = (2 if m.hybrid.get('mac') else 1) if (m.hybrid.get('efi') or m.hybrid.get('mac')) else 0
        pe = m.hybrid.get('part_entry', 1)
        clash = (m.hybrid.get('efi') and pe == 2) or (m.hybrid.get('mac') and pe == 3)
        if n_efi_sections < need or clash:
            # not a combination the documentation describes (efi needs an EFI section,
            # mac two; offsets beyond the system area): not this property's subject.
            # EFI sections beyond those asked for are simply not described by the GPT / APM.
            counters['skipped_invalid_combination'] = counters.get('skipped_invalid_combination', 0) + 1
            sess.close()
            return []
    if m.hybrid is not None and m.hybrid.get('part_offset', 0) * 512 >= 32768:
        # a partition offset at or beyond the end of the ISO describes no partition at all: not a
        # combination the documentation describes.  The size of the ISO part is that of the twin
        # mastered without add_isohybrid.
        tw0 = driver.replay(cfg, [o for o in ops if o['op'] != 'add_isohybrid'], seed, always_consistent=ac)
        timg0, toc0 = tw0.write()
        tw0.close()
        if not toc0.ok or m.hybrid['part_offset'] * 512 >= len(timg0.getvalue()):
            counters['skipped_invalid_combination'] = counters.get('skipped_invalid_combination', 0) + 1
            sess.close()
            return []
    img, oc = sess.write()
    if not oc.ok:
        sess.close()
        cls = 'efi-without-section' if (m.hybrid and m.hybrid.get('efi') and not any(e['efi'] for e in (m.boot or {'entries': []})['entries'])) else 'other'
        return [{'key': 'write-raises:%s@%s' % (oc.exc_class, oc.exc_where), 'detail': oc.exc_msg}]
    data = img.getvalue()
    if m.hybrid is None:
        sess.close()
        if any(o['op'] == 'rm_isohybrid' for o in ops):
            # hybridisation taken back: the image is the one that never was a hybrid
            tw = driver.replay(cfg, [o for o in ops if o['op'] not in ('add_isohybrid', 'rm_isohybrid')], seed, always_consistent=ac)
            timg, toc = tw.write()
            tw.close()
            counters['rm_isohybrid_twins'] = counters.get('rm_isohybrid_twins', 0) + 1
            if toc.ok and timg.getvalue() != data:
                t_ = timg.getvalue()
                rng_ = common.diff_ranges(data[:min(len(data), len(t_))], t_[:min(len(data), len(t_))], limit=3)
                return [{'key': 'rm_isohybrid:residue', 'detail': 'after rm_isohybrid the image (%d bytes) differs from the twin that never was a hybrid (%d bytes) at %s' % (len(data), len(t_), rng_)}]
        return []
    hy = ihy.decode(data)
    et = iet.decode(data, catalog_len=2048)
    ec = ecma119.decode(data)
    counters['hybrid_images_decoded'] = counters.get('hybrid_images_decoded', 0) + 1
    if not hy.present:
        vio.append({'key': 'mbr:absent', 'detail': 'no isohybrid MBR decoded'})
    for k, d in hy.problems:
        vio.append({'key': k, 'detail': d})
    want = m.hybrid
    if hy.present:
        mbr = hy.mbr
        declared = ec.space_size * 2048
        # boot address
        first = et.initial if et.present else None
        if first is not None and mbr['boot_rba_512'] != first.load_rba * 4:
            vio.append({'key': 'mbr:rba', 'detail': 'MBR boot address %d, boot file at sector %d (x4 = %d)' % (mbr['boot_rba_512'], first.load_rba, first.load_rba * 4)})
        if want.get('mbr_id') is not None and mbr['mbr_id'] != want['mbr_id']:
            vio.append({'key': 'mbr:id', 'detail': 'mbr id %#x requested %#x' % (mbr['mbr_id'], want['mbr_id'])})
        gs, gh = want.get('geometry_sectors', 32), want.get('geometry_heads', 64)
        if mbr.get('geometry_sectors') != gs or mbr.get('geometry_heads') != gh:
            vio.append({'key': 'mbr:chs', 'detail': 'decoded geometry %r/%r requested sectors %d heads %d' % (mbr.get('geometry_sectors'), mbr.get('geometry_heads'), gs, gh)})
        cyl = gs * gh * 512
        if len(data) % cyl:
            vio.append({'key': 'pad', 'detail': 'image %d bytes is not a whole number of %d-byte cylinders' % (len(data), cyl)})
        slack = cyl + (((34 * 512 + cyl - 1) // cyl) * cyl if want.get('efi') else 0)
        if len(data) < declared or (len(data) - declared) > slack:
            vio.append({'key': 'pad', 'detail': 'image %d bytes, declared %d, cylinder %d' % (len(data), declared, cyl)})
        counters['cyl_gt_1024'] = counters.get('cyl_gt_1024', 0) + (1 if len(data) // cyl > 1024 else 0)
        pe = want.get('part_entry', 1)
        if mbr.get('active_index') is not None and mbr['active_index'] + 1 != pe and not (want.get('efi') or want.get('mac')):
            vio.append({'key': 'mbr:active', 'detail': 'active entry %d requested %d' % (mbr['active_index'] + 1, pe)})
        # GPT partitions delimit the El Torito images
        # (with more EFI sections than asked for, which of them the partitions describe is not stated)
        if want.get('efi') and hy.gpt_primary is not None and et.present and n_efi_sections == need:
            efi_entries = [e for sec in et.sections if sec.platform_id == 0xef for e in sec.entries]
            parts = hy.gpt_primary['parts']
            exp_ranges = []
            model_efi = [me for me in m.boot['entries'][1:] if me.get('efi')]
            for k, e in enumerate(efi_entries[:2]):
                cid = model_efi[k]['cid'] if len(model_efi) > k else None
                ln = m.contents[cid].length if cid in m.contents else None
                if ln is not None:
                    exp_ranges.append((e.load_rba * 4, e.load_rba * 4 + ((ln + 2047) // 2048) * 4 - 1))
            got = [(p['first'], p['last']) for p in parts[1:1 + len(exp_ranges)]]
            # which EFI image becomes the 'EFI' and which the 'Mac' partition is not part of the
            # statement; the partitions must delimit exactly the El Torito images
            if sorted(got) != sorted(exp_ranges):
                vio.append({'key': 'gpt:part:images', 'detail': 'GPT partitions cover LBAs %s, the El Torito EFI images occupy %s' % (got, exp_ranges)})
            counters['gpt_checked'] = counters.get('gpt_checked', 0) + 1
    if hy.present and seed % 3 == 0:
        # the hybrid image opened by a fresh object and mastered again carries the same structures
        # (what open() reconstructs of MBR, both GPT copies and the APM is what was there)
        s3 = driver.Session(cfg, seed)
        try:
            s3.open_bytes(data)
            img3, oc3 = s3.write()
            counters['hybrid_remastered'] = counters.get('hybrid_remastered', 0) + 1
            if not oc3.ok:
                vio.append({'key': 'remaster:write-raises:%s@%s' % (oc3.exc_class, oc3.exc_where), 'detail': oc3.exc_msg})
            else:
                hy3 = ihy.decode(img3.getvalue())
                known_ = {k for k, _d in hy.problems}
                for k, d in hy3.problems:
                    if k not in known_:
                        vio.append({'key': 'remaster:%s' % k, 'detail': d})
                for part in ('mbr', 'gpt_primary', 'gpt_backup'):
                    if getattr(hy, part, None) != getattr(hy3, part, None):
                        vio.append({'key': 'remaster:%s:differs' % part, 'detail': 'decoded %s of the image mastered again differs from the original' % part})
        except Exception as e:
            vio.append({'key': 'remaster:open-raises:%s@%s' % (type(e).__name__, driver.innermost_pycdlib_frame(e)), 'detail': str(e)})
        s3.close()
    # twin without add_isohybrid: ISO part unchanged
    twin_ops = [o for o in ops if o['op'] != 'add_isohybrid']
    tw = driver.replay(cfg, twin_ops, seed, always_consistent=ac)
    timg, toc = tw.write()
    counters['twin_runs'] = counters.get('twin_runs', 0) + 1
    if toc.ok:
        t = timg.getvalue()
        if data[32768:len(t)] != t[32768:]:
            rng_ = common.diff_ranges(data[32768:len(t)], t[32768:], limit=3)
            vio.append({'key': 'iso-part-diff', 'detail': 'ISO part differs from the twin without add_isohybrid at %s' % [(a + 32768, b + 32768) for a, b in rng_]})
        if any(data[len(t):]) and not (want.get('efi')):
            vio.append({'key': 'pad:nonzero', 'detail': 'non-zero bytes in the cylinder padding'})
    tw.close()
    sess.close()
    return c01.dedup(vio)


def run_case(i, seed, tier):
    if i >= plan(tier):
        from harness import suite
        return suite.run_slot(PROPERTY, i - plan(tier), suite_oracle)
    counters = {}
    cs = seed * 1000003 + i
    cfg, ops = build(cs)
    vio = check(cfg, ops, cs, counters)
    hy = [o for o in ops if o['op'] == 'add_isohybrid']
    nefi = sum(1 for o in ops if o['op'] == 'add_eltorito' and o.get('efi'))
    nt = bool(hy) and ((hy[0].get('efi') and nefi >= 2) or hy[0].get('geometry_sectors', 32) * hy[0].get('geometry_heads', 64) < 64)
    return {'verdict': 'violated' if vio else 'held',
            'violations': [dict(v, replay=common.replay_doc(PROPERTY, cfg, ops, cs)) for v in vio],
            'nontrivial': nt, 'shape': common.shape_of(cfg, ops, repr(sorted(hy[0].items())) if hy else ''),
            'sample': {'cfg': cfg.to_json(), 'isohybrid': hy[:1], 'efi_sections': nefi, 'n_ops': len(ops)}, 'counters': counters}


def replay(doc):
    if doc.get('suite_image'):
        from harness import suite
        return suite.replay(doc, suite_oracle)
    cfg, ops, seed = common.doc_cfg_ops(doc)
    return check(cfg, ops, seed, {})
