"""C10 UDF bridge fidelity for an independent ECMA-167 reader."""
from harness import driver, env
from harness.gen import Gen
from harness.indep import udf as iudf
from harness.model import Cfg
from harness.props import common

PROPERTY = 'C10'
LEVEL = 'exploration'
RULE = ('UDF-bridge images from "udf-churn" histories (directories growing past one sector of file identifiers and shrinking, Latin-1 and '
        'UCS-2 names, symlinks, cross-namespace hard links, removals, reopen-then-edit; one > 4 GiB file per 200 cases on the virtual '
        'disk) decoded by harness/indep/udf.py starting from the recognition sequence and the anchors at 256 and N-1 only: every tag '
        '(ident, checksum, CRC, location), partition/extent/information lengths, LVID counters, and tree, names, symlink targets and file '
        'bytes vs the model. distinct = (configuration, op-kind sequence); non-trivial = a directory with > 2048 bytes of identifiers or '
        'a removal after reopen')
ASSUMPTIONS = ['harness/indep/udf.py is the trusted reader']
REQUIRED_COUNTERS = {'udf_entries_checked': 200, 'udf_tags_ok_images': 20}


def plan(tier):
    return 600 if tier == 'quick' else 10000


# second workload: the UDF images the repository's own tests master (harness/suite.py)
SUITE_TIERS = ('quick', 'thorough')


def suite_oracle(data):
    u = iudf.decode(data)
    return [{'key': k, 'detail': d} for k, d in u.problems] if u.present else []


def norm_target(t):
    """UDF path components cannot express empty components: 'a//b' and 'dir/'
    denote the same path as 'a/b' and 'dir'."""
    if t is None:
        return None
    comps = t.split('/')
    out = [c for i, c in enumerate(comps) if c != '' or i == 0]
    if out == ['']:
        return '/'
    return '/'.join(out)


def check_image(data, model, counters, big=None):
    vio = []
    u = iudf.decode(data)
    if not u.present:
        return [{'key': 'vrs:absent', 'detail': 'no UDF recognition sequence'}], u
    has_huge = any(c.length > 0xfffff800 for c in model.contents.values())
    for k, d in u.problems:
        if has_huge and k in ('len:partition', 'len:alloc', 'len:info'):
            k = 'bytes:multi-extent'
        vio.append({'key': k, 'detail': d})
    if not u.problems:
        counters['udf_tags_ok_images'] = counters.get('udf_tags_ok_images', 0) + 1
    conv = u.info.get('conventions', {})
    exp = model.view('udf')
    got = {p: n for p, n in u.tree.items() if p != '/'}
    counters['udf_entries_checked'] = counters.get('udf_entries_checked', 0) + len(got)
    for p in sorted(set(exp) - set(got)):
        vio.append({'key': 'tree:missing', 'detail': '%r (%s)' % (p[:100], exp[p][0])})
    for p in sorted(set(got) - set(exp)):
        vio.append({'key': 'tree:extra', 'detail': '%r (%s)' % (p[:100], got[p].kind)})
    for p in set(exp) & set(got):
        e, n = exp[p], got[p]
        if e[0] != n.kind:
            vio.append({'key': 'kind', 'detail': '%r built %s read %s' % (p[:80], e[0], n.kind)})
            continue
        if e[0] == 'symlink':
            if norm_target(n.target) != norm_target(e[3]):
                vio.append({'key': 'symlink:target', 'detail': '%r given %r read %r' % (p[:60], e[3][:80], (n.target or '')[:80])})
        elif e[0] == 'file':
            if e[2] is None:
                continue
            c = model.contents[e[2]]
            if c.special == 'catalog':
                continue
            if n.length != c.length:
                vio.append({'key': 'len:file', 'detail': '%r information length %d expected %d' % (p[:80], n.length, c.length)})
            elif 0 < c.length <= (1 << 20):
                raw = iudf.read_file(data, n)
                exp_b = c.bytes()
                if c.bit:
                    raw, exp_b = common.mask_bit(raw), common.mask_bit(exp_b)
                if raw != exp_b:
                    vio.append({'key': 'bytes', 'detail': '%r content differs' % p[:80]})
            elif c.length > (1 << 20):
                # large file: check first and last sector through the extents
                from harness import blobs
                pos = 0
                bad = False
                for (start, ln) in n.extents:
                    head = data[start * 2048:start * 2048 + min(2048, ln)]
                    if head != blobs.span(c.cid, c.length, pos, len(head)):
                        bad = True
                        break
                    pos += ln
                if bad or pos != c.length:
                    vio.append({'key': 'bytes:multi-extent' if c.length > 0xfffff800 else 'bytes', 'detail': '%r extents do not cover the content (covered %d of %d)' % (p[:80], pos, c.length)})
    return vio, u


def run_ops(cfg, ops, seed, counters, ops2=None, virtual=False):
    from harness.props import c01
    sess = driver.replay(cfg, ops, seed)
    img, oc = sess.write(virtual=virtual, blocksize=(1 << 20) if virtual else 32768)
    if not oc.ok:
        sess.close()
        return [{'key': 'write-raises:%s@%s' % (oc.exc_class, oc.exc_where), 'detail': oc.exc_msg}], None
    data = img if virtual else img.getvalue()
    vio, u = check_image(data, sess.model, counters)
    if (ops2 and not virtual) or (virtual and ops2 is not None):
        s2, oc = sess.reopen(data)
        if not oc.ok:
            vio.append({'key': 'reopen-raises:%s@%s' % (oc.exc_class, oc.exc_where), 'detail': oc.exc_msg})
        else:
            for op in ops2:
                s2.step(op)
            img2, oc = s2.write(virtual=virtual, blocksize=(1 << 20) if virtual else None)
            if not oc.ok:
                vio.append({'key': 'write-raises:%s@%s' % (oc.exc_class, oc.exc_where), 'detail': 'after reopen: %s' % oc.exc_msg})
            else:
                v2, u = check_image(img2 if virtual else img2.getvalue(), s2.model, counters)
                counters['big_reopened_and_mastered'] = counters.get('big_reopened_and_mastered', 0) + int(virtual)
                for v in v2:
                    v['detail'] = 'after reopen+edits: ' + v['detail']
                vio += v2
            s2.close()
    sess.close()
    return c01.dedup(vio), u


def run_case(i, seed, tier):
    if i >= plan(tier):
        from harness import suite
        return suite.run_slot(PROPERTY, i - plan(tier), suite_oracle)
    counters = {}
    cs = seed * 1000003 + i
    g = Gen(cs)
    cfg = g.cfg(index=i + seed * 37, require=lambda c: c.udf)
    ops2 = None
    virtual = False
    if i % 200 == 107:
        # between 2 and 4 GiB: one ISO9660 extent, but three UDF allocation descriptors (each
        # describes at most 0x3ffff800 bytes)
        cfg = Cfg(level=3, udf=True)
        ops = [{'op': 'add_fp', 'cid': 4100 + i, 'length': 2 * 0x3ffff800 + 5000 + i, 'iso_path': '/BIG3.;1', 'udf_path': '/big3'},
               {'op': 'add_fp', 'cid': 4101 + i, 'length': 70000, 'iso_path': '/AFTER.;1', 'udf_path': '/after'}]
        virtual = True
    elif i % 200 == 57:
        # just over what one allocation descriptor describes, under a UDF name only (or under both);
        # the image is opened again and mastered again, with or without an edit in between
        cfg = Cfg(level=3, udf=True)
        big = {'op': 'add_fp', 'cid': 4200 + i, 'length': 0x3ffff800 + 5000 + i, 'udf_path': '/bigu'}
        if (i // 200) % 2:
            big['iso_path'] = '/BIGU.;1'
        ops = [big, {'op': 'add_fp', 'cid': 4201 + i, 'length': 70000, 'iso_path': '/AFTER.;1', 'udf_path': '/after'}]
        ops2 = [{'op': 'add_fp', 'cid': 4202 + i, 'length': 3000, 'iso_path': '/LATER.;1', 'udf_path': '/later'}] if (i // 400) % 2 == 0 else []
        virtual = True
    elif i % 200 == 7:
        cfg = Cfg(level=3, udf=True)
        ops = [{'op': 'add_directory', 'iso_path': '/D', 'udf_path': '/d'},
               {'op': 'add_fp', 'cid': 4000 + i, 'length': (1 << 32) + 5000 + i, 'iso_path': '/D/BIG.;1', 'udf_path': '/d/big'},
               {'op': 'add_fp', 'cid': 4001 + i, 'length': 3 << 20, 'iso_path': '/MID.;1', 'udf_path': '/mid'}]
        virtual = True
    else:
        profile = ['churn', 'grow', 'links', 'churn'][i % 4]
        h = common.History(cfg, cs, profile, max_size=4000)
        if i % 10 == 3:
            # descriptor areas ending exactly at / just past a sector boundary, the entry that crosses it
            # being a file, symbolic link, directory or further name of a file
            h.sess.close()
            cfg, sops = common.special_layout(g, ['udf-exact-fill', 'udf-big-dir', 'udf-exact-fill', 'udf-many-files'][(i // 10) % 4])
            h = common.History(cfg, cs, profile, max_size=4000)
            for op in sops:
                h.apply(op)
            counters['boundary_layouts'] = 1
        elif i % 5 == 0:
            # a directory with many identifiers, then shrink
            d = {'op': 'add_directory', 'udf_path': '/many'}
            h.apply(d)
            for k in range(g.rng.choice([40, 70, 120])):
                h.apply({'op': 'add_fp', 'cid': h.gen.new_cid(), 'length': g.rng.choice([0, 1, 100]), 'udf_path': '/many/' + 'n%03d-' % k + 'x' * g.rng.choice([5, 30, 60])})
            for k in range(0, 30, 2):
                if g.rng.random() < 0.7:
                    p = [q for q in h.sess.model.ns['udf'] if q.startswith('/many/n%03d-' % k)]
                    if p:
                        h.apply({'op': 'rm_file', 'udf_path': p[0]})
        h.extend(g.rng.choice([6, 15, 30]))
        ops = list(h.ops)
        if i % 3 == 1:
            img, oc = h.sess.write()
            if oc.ok:
                s2, oc2 = h.sess.reopen(img.getvalue())
                if oc2.ok:
                    g2 = Gen(cs + 9, 'churn')
                    g2.uniq = h.gen.uniq + 1000
                    g2.next_cid = h.gen.next_cid + 1000
                    ops2 = []
                    for _ in range(g.rng.choice([4, 10, 20])):
                        op = g2.gen_op(s2.model)
                        if s2.step(op).ok:
                            ops2.append(op)
                        else:
                            break
                    s2.close()
        h.sess.close()
    vio, u = run_ops(cfg, ops, cs, counters, ops2, virtual)
    nt = False
    if u is not None and u.present:
        big_dir = any(n.kind == 'dir' and n.length > 2048 for n in u.tree.values())
        nt = big_dir or bool(ops2 and any(o['op'].startswith('rm_') for o in ops2))
    return {'verdict': 'violated' if vio else 'held',
            'violations': [dict(v, replay=common.replay_doc(PROPERTY, cfg, ops, cs, ops2=driver.ops_to_json(ops2 or []), virtual=virtual)) for v in vio],
            'nontrivial': nt, 'shape': common.shape_of(cfg, ops + (ops2 or [])),
            'sample': {'cfg': cfg.to_json(), 'n_ops': len(ops), 'n_ops_after_reopen': len(ops2 or []), 'ops': common.short_ops(ops, 5)}, 'counters': counters}


def replay(doc):
    if doc.get('suite_image'):
        from harness import suite
        return suite.replay(doc, suite_oracle)
    cfg, ops, seed = common.doc_cfg_ops(doc)
    ops2 = driver.ops_from_json(doc.get('ops2') or [])
    vio, _ = run_ops(cfg, ops, seed, {}, ops2 or None, doc.get('virtual', False))
    return vio
