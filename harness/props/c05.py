"""C05 Re-mastering is a fixpoint: write(open(img)) == img apart from the
volume modification date, and again for the re-mastered image."""
from harness import driver, env
from harness.gen import Gen
from harness.props import common

PROPERTY = 'C05'
LEVEL = 'exploration'
RULE = ('random accepted histories over all 256 configurations (same generator as C01, plus boot/hybrid profiles); image '
        'written, opened in a fresh object, written again with the virtual clock advanced, byte-compared with the 17-byte '
        'volume modification date of every PVD/SVD masked; repeated for a third generation. distinct = (configuration, '
        'op-kind sequence) hash; non-trivial = image carries >= 2 of {Rock Ridge, Joliet, UDF, El Torito, hybrid, XA}')
ASSUMPTIONS = ['determinism shim', 'independent decoders only localise differences (they do not decide the verdict)']
REQUIRED_COUNTERS = {'api:open_fp:ok': 1, 'bytes_compared': 100000}


def plan(tier):
    return 1500 if tier == "quick" else 30000


# second workload: the images the repository's own tests master (harness/suite.py) are opened and
# mastered again by a fresh object
SUITE_TIERS = ('quick', 'thorough')


def suite_oracle(data):
    import io
    import pycdlib
    iso = pycdlib.PyCdlib()
    try:
        iso.open_fp(io.BytesIO(data))
    except Exception as e:
        return [{'key': 'reopen-raises:%s@%s' % (type(e).__name__, driver.innermost_pycdlib_frame(e)), 'detail': str(e)}]
    out = io.BytesIO()
    try:
        iso.write_fp(out)
    except Exception as e:
        return [{'key': 'rewrite-raises:%s@%s' % (type(e).__name__, driver.innermost_pycdlib_frame(e)), 'detail': str(e)}]
    finally:
        try:
            iso.close()
        except Exception:
            pass
    return classify(data, out.getvalue())


def mask_dates(data, ecma):
    b = bytearray(data)
    for vd in ecma.vds:
        if vd.type in (1, 2):
            off = vd.sector * 2048 + 830
            b[off:off + 17] = b'\x00' * 17
    return bytes(b)


def classify(a, b, counters=None):
    """a, b: images (bytes).  Returns violations."""
    from harness.indep import ecma119
    vio = []
    if len(a) != len(b):
        vio.append({'key': 'diff:length', 'detail': 'first %d bytes, re-mastered %d bytes' % (len(a), len(b))})
    ea = ecma119.decode(a)
    ma, mb = mask_dates(a, ea), mask_dates(b, ea)
    if counters is not None:
        counters['bytes_compared'] = counters.get('bytes_compared', 0) + min(len(a), len(b))
    if ma == mb:
        return vio
    dec = common.decode_all(a)
    idx = common.ExtentIndex(common.full_extent_map(dec))
    seen = set()
    for s, e in common.diff_ranges(ma, mb):
        hit = idx.locate(s)
        if hit is None:
            kind = 'system-area' if s < 32768 else 'unmapped'
        else:
            kind = hit[0]
            if kind.startswith('vd-'):
                kind = '%s+%d' % (kind, (s % 2048) // 64 * 64)
        if kind not in seen:
            seen.add(kind)
            vio.append({'key': 'diff:%s' % kind, 'detail': 'bytes %d..%d (sector %d +%d) differ after re-mastering' % (s, e, s // 2048, s % 2048)})
    return vio


def check(cfg, ops, seed, counters=None):
    vio = []
    sess = driver.replay(cfg, ops, seed)
    img, oc = sess.write()
    if not oc.ok:
        return [{'key': 'write-raises:%s@%s' % (oc.exc_class, oc.exc_where), 'detail': oc.exc_msg}]
    gens = [img.getvalue()]
    sess.close()
    for g in (1, 2):
        env.CLOCK.advance(86400 * 3 + 7)
        # sometimes in an object that held a different image (with every optional structure) before
        s = driver.Session(cfg, seed, reuse=driver.used_session(seed, how=(seed // 4) % 2) if (seed + g) % 4 == 0 else None)
        try:
            s.open_bytes(gens[-1])
        except Exception as e:
            vio.append({'key': 'reopen-raises:%s@%s' % (type(e).__name__, driver.innermost_pycdlib_frame(e)), 'detail': 'generation %d: %s' % (g, e)})
            return vio
        driver.count('api:open_fp:ok')
        out, oc = s.write()
        s.close()
        if not oc.ok:
            vio.append({'key': 'rewrite-raises:%s@%s' % (oc.exc_class, oc.exc_where), 'detail': 'generation %d: %s' % (g, oc.exc_msg)})
            return vio
        gens.append(out.getvalue())
        for v in classify(gens[-2], gens[-1], counters):
            v['detail'] = 'generation %d->%d: %s' % (g - 1, g, v['detail'])
            vio.append(v)
        if vio:
            break
    return vio


def run_case(i, seed, tier):
    if i >= plan(tier):
        from harness import suite
        return suite.run_slot(PROPERTY, i - plan(tier), suite_oracle)
    from harness.props import c01
    counters = {}
    g = Gen(seed * 1000003 + i)
    cfg = g.cfg(index=i + seed * 11)
    profile = common.PROFILES[(i // 3) % len(common.PROFILES)]
    nops = g.rng.choice([2, 5, 10, 16, 24]) if tier == 'quick' else g.rng.choice([4, 10, 20, 35, 50])
    if i % 20 == 6:
        cfg, sops = common.special_layout(g, common.SPECIALS[(i // 20) % len(common.SPECIALS)])
        h = common.History(cfg, seed * 1000003 + i, 'std')
        for op in sops:
            h.apply(op)
        ops = list(h.ops)
        h.sess.close()
        profile = 'special'
    elif i % 4 == 1:
        from harness.props import c11
        cfg, pre, boot, post = c11.build(seed * 1000003 + i, tier)
        ops = pre + boot + post
        profile = 'boot'
    elif i % 8 == 3:
        from harness.props import c12
        cfg, ops = c12.build(seed * 1000003 + i, valid_only=True)
        profile = 'hybrid'
    else:
        if i % 3 == 2:
            cfg = cfg.with_extra(g.vd_extras(bool(cfg.joliet), cfg.xa))
        h = common.History(cfg, seed * 1000003 + i, profile)
        if i % 7 == 5:
            h.extend(nops // 2)
            counters['reopened_histories'] = 1 if h.reopen(reuse=(i % 2 == 0)) else 0
            h.extend(nops - nops // 2)
        else:
            h.extend(nops)
        ops = list(h.ops)
        h.sess.close()
    if i % 4 == 2:
        # a running clock while the image is built: the time stamps of one record differ from each
        # other, so a parser that mixes them up does not reproduce the image
        ops = [{'op': 'clock_tick', 'seconds': 1}] + list(ops) + [{'op': 'clock_tick', 'seconds': 0}]
        counters['running_clock_cases'] = 1
    vio = c01.dedup(check(cfg, ops, seed * 1000003 + i, counters))
    feats = sum([bool(cfg.rr), bool(cfg.joliet), cfg.udf, cfg.xa, profile in ('boot', 'hybrid')])
    return {'verdict': 'violated' if vio else 'held',
            'violations': [dict(v, replay=common.replay_doc(PROPERTY, cfg, ops, seed * 1000003 + i)) for v in vio],
            'nontrivial': feats >= 2 and len(ops) >= 3, 'shape': common.shape_of(cfg, ops),
            'sample': {'cfg': cfg.to_json(), 'profile': profile, 'n_ops': len(ops), 'ops': common.short_ops(ops, 8)},
            'counters': counters}


def replay(doc):
    if doc.get('suite_image'):
        from harness import suite
        return suite.replay(doc, suite_oracle)
    from harness.props import c01
    cfg, ops, seed = common.doc_cfg_ops(doc)
    return c01.dedup(check(cfg, ops, seed))
