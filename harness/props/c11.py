"""C11 El Torito boot structures point at the right bytes."""
import random
import struct

from harness import driver, env
from harness.gen import Gen
from harness.indep import ecma119, eltorito as iet
from harness.model import join
from harness.props import common

PROPERTY = 'C11'
LEVEL = 'exploration'
RULE = ('"boot" histories in every namespace configuration: random pre-history, add_eltorito with media noemul / floppy 1.2-1.44-2.88M / '
        'hdemul (generated MBRs), platform 0/1/2/0xef, bootable flag, load segment, explicit or derived load size, boot info table, '
        '1..32 add_eltorito calls (31 sections accepted, 32nd refused), custom catalog names, boot files made hidden/unlinked afterwards '
        '(rm_hard_link), edits after add_eltorito that move the boot files; image decoded by harness/indep/eltorito.py: sector 17, '
        'validation checksum/platform, every entry (media, load size, bootable, load RBA = first sector of the boot file bytes), catalog '
        'reachable under its names with identical bytes, boot info table stored and as read through the API; rm_eltorito decided by a '
        'twin run (H + add_eltorito... + rm_eltorito must equal H byte for byte). distinct = (configuration, boot op sequence); '
        'non-trivial = (>= 2 sections or a boot info table) and an edit after add_eltorito')
ASSUMPTIONS = ['harness/indep/eltorito.py and ecma119.py are the trusted readers', 'determinism shim for the twin run']
REQUIRED_COUNTERS = {'entries_checked': 100, 'twin_runs': 20}

MEDIA = {'noemul': 0, 'floppy12': 1, 'floppy144': 2, 'floppy288': 3, 'hdemul': 4}


def plan(tier):
    return 500 if tier == 'quick' else 8000


def mbr_image(rng, nparts=1, total=4096):
    b = bytearray(rng.randbytes(total))
    b[446:510] = b'\x00' * 64
    for k in range(nparts):
        ptype = rng.choice([0x01, 0x06, 0x0b, 0x83, 0xef])
        b[446 + 16 * k:446 + 16 * (k + 1)] = struct.pack('=BBBBBBBBLL', 0x80, 1, 1, 0, ptype, 3, 8, 0, 1, total // 512 - 1)
    b[510:512] = b'\x55\xaa'
    return bytes(b)


def boot_file_op(g, rng, model, media):
    cfg = model.cfg
    if media == 'floppy':
        length = rng.choice([1228800, 1474560, 2949120])
        data = None
    elif media == 'hdemul':
        data = mbr_image(rng)
        length = len(data)
    else:
        length = rng.choice([1, 8, 9, 30, 63, 64, 65, 512, 2047, 2048, 2049, 4096, 5000, 6144, 20000])
        data = None
    premade = False
    if media == 'noemul' and length >= 64 and rng.random() < 0.12:
        # a boot file that already carries a boot info table (made for another place on another
        # image: right PVD sector, length and checksum, stale file sector); no table is asked for,
        # so these bytes are ordinary content
        import struct as _st
        body = bytearray(random.Random(length * 31 + 7).randbytes(length))
        words = _st.unpack('<%dI' % ((length - 64) // 4), bytes(body[64:64 + (length - 64) // 4 * 4]))
        tail = bytes(body[64 + (length - 64) // 4 * 4:])
        csum = (sum(words) + (int.from_bytes(tail.ljust(4, b'\x00'), 'little') if tail else 0)) & 0xffffffff
        # (a file sector no file of these images can have: otherwise the bytes would be a valid table
        # of this very image, and the library rightly treats them as one when the image is opened)
        body[8:64] = _st.pack('<IIII', 16, rng.choice([1, 7, 0x00fffff0]), length, csum) + b'\x00' * 40
        data = bytes(body)
        premade = True
    op = {'op': 'add_fp', 'cid': g.new_cid(), 'length': length}
    if data is not None:
        op['data'] = data
    if premade:
        op['premade_table'] = True
    parent = g.pick_dir(model, 'iso', 5)
    op['iso_path'] = join(parent, g.iso_file_name(cfg.level))
    if cfg.rr:
        op['rr_name'] = g.rr_name(long_bias=0.05)
    if cfg.joliet and rng.random() < 0.6:
        op['joliet_path'] = join(g.pick_dir(model, 'joliet'), g.uni_name())
    if cfg.udf and rng.random() < 0.6:
        op['udf_path'] = join(g.pick_dir(model, 'udf'), g.udf_name())
    return op


def eltorito_op(rng, model, bootfile, media, first):
    cfg = model.cfg
    op = {'op': 'add_eltorito', 'bootfile_path': bootfile, 'media_name': media}
    if rng.random() < 0.5:
        op['platform_id'] = rng.choice([0, 1, 2, 0xef]) if first else rng.choice([0, 0, 0, 2])
    if media == 'noemul':
        if rng.random() < 0.5:
            op['boot_load_size'] = rng.choice([1, 4, 8, 100])
        if rng.random() < 0.4:
            op['boot_info_table'] = True
    if rng.random() < 0.3:
        op['bootable'] = False
    if rng.random() < 0.3:
        op['boot_load_seg'] = rng.choice([0, 0x7c0, 0x1000])
    if not first and rng.random() < 0.3:
        op['efi'] = True
    if first and rng.random() < 0.4:
        op['bootcatfile'] = '/CAT%s.;1' % rng.randint(0, 99) if cfg.level < 4 else '/mycat%d' % rng.randint(0, 99)
        if cfg.rr:
            op['rr_bootcatname'] = 'catalog.%d' % rng.randint(0, 99)
        if cfg.joliet:
            op['joliet_bootcatfile'] = '/catalog-j%d' % rng.randint(0, 99)
        if cfg.udf:
            op['udf_bootcatfile'] = '/catalog-u%d' % rng.randint(0, 99)
    return op


def build(cs, tier):
    """Returns (cfg, pre_ops, boot_ops, post_ops)."""
    g = Gen(cs, 'std')
    rng = g.rng
    cfg = g.cfg(index=cs)
    h = common.History(cfg, cs, rng.choice(['std', 'grow', 'churn']), max_size=4000)
    h.extend(rng.choice([0, 3, 8, 15]))
    pre = list(h.ops)
    n_pre = len(pre)
    # boot phase
    nsec = rng.choice([1, 1, 2, 3, 5, 12, 32])
    prev_boot = None
    counters_same_name = [0]
    for k in range(nsec):
        media = rng.choice(['noemul', 'noemul', 'noemul', 'floppy', 'hdemul'])
        if nsec > 5 and media == 'floppy':
            media = 'noemul'
        bop = boot_file_op(h.gen, rng, h.sess.model, media)
        if k >= 1 and prev_boot and rng.random() < 0.25:
            # the same file name as the previous boot file, in another directory
            others = sorted(d for d in h.sess.model.dirs('iso') if d != (prev_boot.rsplit('/', 1)[0] or '/') and h.sess.model.depth(d) < 6
                            and join(d, prev_boot.rsplit('/', 1)[1]) not in h.sess.model.ns['iso'])
            if others:
                bop['iso_path'] = join(rng.choice(others), prev_boot.rsplit('/', 1)[1])
                counters_same_name[0] += 1
        out = h.apply(bop)
        if not out.ok:
            continue
        prev_boot = bop['iso_path']
        eop = eltorito_op(rng, h.sess.model, bop['iso_path'], media, h.sess.model.boot is None)
        if bop.get('premade_table'):
            eop.pop('boot_info_table', None)
        h.apply(eop)
        if media == 'noemul' and rng.random() < 0.15 and h.sess.model.boot is not None and len(h.sess.model.boot['entries']) < 30:
            # a second catalog entry that boots the very same file (e.g. BIOS and EFI from one image)
            again = eltorito_op(rng, h.sess.model, bop['iso_path'], media, False)
            again.pop('boot_info_table', None)
            h.apply(again)
        if rng.random() < 0.2 and h.sess.model.boot is not None:
            # hide / unlink the boot file by one of its names
            names = h.sess.model.names_of(bop['cid'])
            # a boot image without any name keeps only its load size when reopened (documented:
            # "we only know the number of emulated sectors"), so only fully hide images whose
            # load size covers them
            mine = [e_ for e_ in h.sess.model.boot['entries'] if e_['cid'] == bop['cid']]
            can_hide_all = bool(mine) and all(e_['media_name'] == 'noemul' and e_['boot_load_size'] is None for e_ in mine)
            if len(names) >= (1 if can_hide_all else 2) and rng.random() < 0.5:
                ns, p = rng.choice(names)
                h.apply({'op': 'rm_hard_link', '%s_path' % ns: p})
            elif names:
                ns, p = names[0]
                if ns in ('iso', 'joliet'):
                    h.apply({'op': 'set_hidden', '%s_path' % ns: p})
    if h.sess.model.boot is not None and rng.random() < 0.4:
        # further names for the catalog (registered after the ones add_eltorito made)
        if cfg.joliet and rng.random() < 0.4:
            h.apply({'op': 'add_hard_link', 'boot_catalog_old': True, 'new': ('joliet', join('/', h.gen.uni_name()))})
        if rng.random() < 0.8:
            par = g.pick_dir(h.sess.model, 'iso', 4) if rng.random() < 0.5 else '/'
            h.apply({'op': 'add_hard_link', 'boot_catalog_old': True,
                     'new': ('iso', join(par, h.gen.iso_file_name(cfg.level))), **({'rr_name': h.gen.rr_name(0)} if cfg.rr else {})})
    n_boot = len(h.ops)
    h.extend(rng.choice([0, 0, 4, 10]))
    ops = list(h.ops)
    h.sess.close()
    return cfg, ops[:n_pre], ops[n_pre:n_boot], ops[n_boot:]


def expected_entry(model, e):
    c = model.contents[e['cid']]
    media = e['media_name']
    if media == 'noemul':
        code = 0
        load = e['boot_load_size'] if e['boot_load_size'] is not None else ((c.length + 2047) // 2048) * 4
    elif media == 'floppy':
        code = {1228800: 1, 1474560: 2, 2949120: 3}.get(c.length)
        if e['boot_load_size'] is not None:
            code = {2400: 1, 2880: 2, 5760: 3}.get(e['boot_load_size'], code)
        load = 1
    else:
        code = 4
        load = 1
    return code, load


def check_image(data, model, api_iso, counters):
    vio = []
    et = iet.decode(data, catalog_len=2048)
    if model.boot is None:
        if et.present:
            vio.append({'key': 'rm-residue:boot-record', 'detail': 'a boot record is present although El Torito was removed / never added'})
        return vio, et
    if not et.present:
        return [{'key': 'br:missing', 'detail': 'no El Torito boot record in the descriptor set'}], et
    for k, d in et.problems:
        vio.append({'key': k, 'detail': d})
    if et.br_sector != 17:
        vio.append({'key': 'br', 'detail': 'boot record at sector %d' % et.br_sector})
    entries = et.all_entries()
    exp = model.boot['entries']
    if len(entries) != len(exp):
        vio.append({'key': 'entry:count', 'detail': '%d entries in the catalog, %d requested' % (len(entries), len(exp))})
    if et.validation.get('platform_id') != model.boot['platform_id']:
        vio.append({'key': 'validation:platform', 'detail': 'validation entry platform %r, requested %r' % (et.validation.get('platform_id'), model.boot['platform_id'])})
    ecma = ecma119.decode(data)
    sec_of = {}
    for si, sec in enumerate(et.sections):
        for en in sec.entries:
            sec_of[id(en)] = sec
    for idx, (en, ex) in enumerate(zip(entries, exp)):
        counters['entries_checked'] = counters.get('entries_checked', 0) + 1
        code, load = expected_entry(model, ex)
        where = 'initial' if idx == 0 else 'section'
        if en.media != code:
            vio.append({'key': 'entry:media:%s' % where, 'detail': 'entry %d media %r, requested %s (%r)' % (idx, en.media, ex['media_name'], code)})
        if en.sector_count != load:
            vio.append({'key': 'entry:load-size:%s' % where, 'detail': 'entry %d sector count %d expected %d' % (idx, en.sector_count, load)})
        if (en.indicator == 0x88) != bool(ex['bootable']):
            vio.append({'key': 'entry:bootable:%s' % where, 'detail': 'entry %d indicator %#x, bootable=%r' % (idx, en.indicator, ex['bootable'])})
        if en.load_segment != ex['boot_load_seg']:
            vio.append({'key': 'entry:load-seg:%s' % where, 'detail': 'entry %d load segment %#x requested %#x' % (idx, en.load_segment, ex['boot_load_seg'])})
        if idx > 0:
            sec = sec_of.get(id(en))
            want = 0xef if ex['efi'] else (ex['platform_id'] if ex.get('platform_id') else model.boot['platform_id'])
            if sec is not None and sec.platform_id != want:
                # known mechanism: an explicit platform_id of a later add_eltorito is ignored and the
                # section inherits the platform of the validation entry; anything else is new
                inherited = (not ex['efi']) and bool(ex.get('platform_id')) and sec.platform_id == model.boot['platform_id']
                vio.append({'key': 'entry:platform:section' if inherited else 'entry:platform:section:not-inherited',
                            'detail': 'section of entry %d platform %#x expected %#x (validation entry %#x)' % (idx, sec.platform_id, want, model.boot['platform_id'])})
        # load address = first sector of the boot file bytes
        c = model.contents[ex['cid']]
        content = c.bytes()
        start = en.load_rba * 2048
        on_disc = data[start:start + len(content)]
        a, b = (common.mask_bit(on_disc), common.mask_bit(content)) if c.bit else (on_disc, content)
        if a != b:
            vio.append({'key': 'entry:rba:%s' % where, 'detail': 'entry %d load RBA %d does not hold the boot file (%d bytes) of content %r' % (idx, en.load_rba, len(content), ex['cid'])})
        elif c.bit and len(content) >= 64:
            bit = iet.boot_info_table(data, start, len(content))
            want = {'pvd_lba': 16, 'file_lba': en.load_rba, 'file_len': len(content), 'checksum': iet.boot_info_checksum(data, start, len(content))}
            for fkey, short in (('pvd_lba', 'pvd'), ('file_lba', 'lba'), ('file_len', 'len'), ('checksum', 'csum')):
                if bit[fkey] != want[fkey]:
                    vio.append({'key': 'bit:%s:stored' % short, 'detail': 'boot info table %s = %d expected %d' % (fkey, bit[fkey], want[fkey])})
            counters['bit_checked'] = counters.get('bit_checked', 0) + 1
        if c.bit and a == b and api_iso is not None:
            # as read back through the API: under every name in every namespace, and for files too
            # short to hold the whole table (it is cut at the end of the file)
            import io
            for ns, p in model.names_of(ex['cid']):
                buf = io.BytesIO()
                try:
                    api_iso.get_file_from_iso_fp(buf, **{'%s_path' % ns: p})
                    counters['bit_api_reads'] = counters.get('bit_api_reads', 0) + 1
                    if buf.getvalue() != on_disc:
                        vio.append({'key': 'bit:api' if ns == 'iso' else 'bit:api:%s' % ns, 'detail': '%s read through the API (%d bytes) differs from the %d stored bytes' % (p, len(buf.getvalue()), len(on_disc))})
                except Exception as e:
                    vio.append({'key': 'bit:api-raises:%s' % type(e).__name__, 'detail': str(e)})
    # catalog reachable as a file with identical bytes
    cat = data[et.catalog_lba * 2048:et.catalog_lba * 2048 + 2048]
    for ns, p in model.boot['catalog']:
        if ns in ('iso', 'joliet'):
            vol = ecma.pvd if ns == 'iso' else ecma.joliet
            node = vol.tree.get(p) if vol is not None else None
            if node is None:
                if not (ns == 'iso' and model.relocation_active()):
                    vio.append({'key': 'catalog-file:%s' % ns, 'detail': '%s not in the %s tree' % (p, ns)})
            elif node.extent != et.catalog_lba or node.length != 2048:
                vio.append({'key': 'catalog-file:%s' % ns, 'detail': '%s at extent %d length %d, catalog at %d' % (p, node.extent, node.length, et.catalog_lba)})
        if api_iso is not None:
            import io
            buf = io.BytesIO()
            try:
                api_iso.get_file_from_iso_fp(buf, **{'%s_path' % ns: p})
                if buf.getvalue() != cat:
                    vio.append({'key': 'catalog-file:%s:api-bytes' % ns, 'detail': '%s read through the API (%d bytes) differs from the catalog sector' % (p, len(buf.getvalue()))})
            except Exception as e:
                vio.append({'key': 'catalog-file:%s:api-raises:%s' % (ns, type(e).__name__), 'detail': '%s: %s' % (p, e)})
    return vio, et


def check(cfg, ops, seed, counters):
    from harness.props import c01
    vio = []
    sess = driver.replay(cfg, ops, seed)
    # boot files read through every name on the object that is about to master the image (before
    # anything forced a layout): the same bytes as the model's content apart from the boot info table
    live_reads = {}
    if sess.model.boot is not None and seed % 3 != 0:
        import io as _io0
        for e_ in sess.model.boot['entries']:
            for ns_, p_ in sess.model.names_of(e_['cid']):
                buf = _io0.BytesIO()
                try:
                    sess.iso.get_file_from_iso_fp(buf, **{'%s_path' % ns_: p_})
                    live_reads[(ns_, p_)] = buf.getvalue()
                    counters['live_bootfile_reads'] = counters.get('live_bootfile_reads', 0) + 1
                except Exception as ex:
                    vio.append({'key': 'bootfile:%s:live-read-raises:%s' % (ns_, type(ex).__name__), 'detail': '%s before the first write: %s' % (p_, ex)})
    img, oc = sess.write()
    if not oc.ok:
        sess.close()
        return vio + [{'key': 'write-raises:%s@%s' % (oc.exc_class, oc.exc_where), 'detail': oc.exc_msg}], None
    data = img.getvalue()
    if live_reads:
        # one content, whatever name it is read through
        by_cid = {}
        for e_ in sess.model.boot['entries']:
            for nm in sess.model.names_of(e_['cid']):
                if nm in live_reads:
                    by_cid.setdefault(e_['cid'], {})[nm] = live_reads[nm]
        for cid_, reads in by_cid.items():
            if len({v for v in reads.values()}) > 1:
                vio.append({'key': 'bootfile:live-read:names-disagree', 'detail': 'content %r read before the first write differs between its names %s' % (cid_, sorted(reads)[:3])})
        dec0 = common.decode_all(data)
        for (ns_, p_), got in live_reads.items():
            vol = {'iso': dec0['ecma'].pvd, 'joliet': dec0['ecma'].joliet}.get(ns_)
            node = vol.tree.get(p_) if vol is not None else None
            if node is not None and node.kind == 'file':
                from harness.indep import ecma119 as _e
                stored = _e.read_file(data, node)
                if got != stored and not (sess.model.relocation_active()):
                    vio.append({'key': 'bootfile:%s:live-read-differs' % ns_, 'detail': '%s read before the first write (%d bytes) differs from the bytes then stored (%d bytes)' % (p_, len(got), len(stored))})
    # the catalog through every one of its names on the object that mastered the image
    if sess.model.boot is not None:
        import io as _io
        et0 = iet.decode(data, catalog_len=2048)
        if et0.present:
            cat0 = data[et0.catalog_lba * 2048:et0.catalog_lba * 2048 + 2048]
            for ns, p in sess.model.boot['catalog']:
                buf = _io.BytesIO()
                try:
                    sess.iso.get_file_from_iso_fp(buf, **{'%s_path' % ns: p})
                    counters['live_catalog_reads'] = counters.get('live_catalog_reads', 0) + 1
                    if buf.getvalue() != cat0:
                        vio.append({'key': 'catalog-file:%s:live-api-bytes' % ns, 'detail': '%s read from the mastering object (%d bytes) differs from the catalog sector' % (p, len(buf.getvalue()))})
                except Exception as e:
                    vio.append({'key': 'catalog-file:%s:live-api-raises:%s' % (ns, type(e).__name__), 'detail': '%s: %s' % (p, e)})
    s2, oc = sess.reopen(data)
    if not oc.ok:
        key = 'reopen-raises:%s@%s' % (oc.exc_class, oc.exc_where)
        if sess.model.boot and len(sess.model.boot['entries']) == 32:
            key += ':31-sections'
        vio.append({'key': key, 'detail': oc.exc_msg})
    v, et = check_image(data, sess.model, s2.iso if oc.ok else None, counters)
    vio += v
    if oc.ok:
        for k, d in common.compare_views(s2.model, s2.iso):
            vio.append({'key': 'view:' + k, 'detail': d})
        if seed % 2 == 0 and s2.model.boot is not None:
            # second generation: edits on the opened image that move the boot files, then the
            # boot structures (load addresses, boot info tables) of the re-mastered image
            moved = 0
            for k_ in range(3):
                mv = {'op': 'add_directory', 'iso_path': '/MV%dG2' % k_}
                if cfg.rr:
                    mv['rr_name'] = 'mv%d-g2' % k_
                moved += int(s2.step(mv).ok)
            if moved:
                # the boot files read through every name after the edits that move them and before
                # anything lays the image out again: the bytes the re-mastered image then stores
                reads2 = {}
                if seed % 4 == 0:
                    import io as _io2
                    for e_ in s2.model.boot['entries']:
                        for ns_, p_ in s2.model.names_of(e_['cid']):
                            if ns_ == 'udf' or (ns_, p_) in reads2:
                                continue
                            buf = _io2.BytesIO()
                            try:
                                s2.iso.get_file_from_iso_fp(buf, **{'%s_path' % ns_: p_})
                                reads2[(ns_, p_)] = buf.getvalue()
                                counters['live_bootfile_reads_after_move'] = counters.get('live_bootfile_reads_after_move', 0) + 1
                            except Exception as ex:
                                vio.append({'key': 'bootfile:%s:live-read-raises:%s' % (ns_, type(ex).__name__), 'detail': '%s after reopen+edits: %s' % (p_, ex)})
                img3, oc3 = s2.write()
                if not oc3.ok:
                    vio.append({'key': 'write-raises:%s@%s' % (oc3.exc_class, oc3.exc_where), 'detail': 'after reopen+edits: %s' % oc3.exc_msg})
                else:
                    if reads2 and not s2.model.relocation_active():
                        from harness.indep import ecma119 as _e2
                        dec3 = _e2.decode(img3.getvalue())
                        for (ns_, p_), got in reads2.items():
                            vol = {'iso': dec3.pvd, 'joliet': dec3.joliet}.get(ns_)
                            node = vol.tree.get(p_) if vol is not None else None
                            if node is not None and node.kind == 'file' and got != _e2.read_file(img3.getvalue(), node):
                                vio.append({'key': 'bootfile:%s:live-read-differs:after-move' % ns_, 'detail': '%s read after reopen+edits (%d bytes) differs from the bytes the re-mastered image stores' % (p_, len(got))})
                    s3, oc4 = s2.reopen(img3.getvalue())
                    v3, _et3 = check_image(img3.getvalue(), s2.model, s3.iso if oc4.ok else None, counters)
                    if not oc4.ok:
                        v3.append({'key': 'reopen-raises:%s@%s' % (oc4.exc_class, oc4.exc_where), 'detail': oc4.exc_msg})
                    for v_ in v3:
                        v_['detail'] = 'after reopen+edits: ' + (v_.get('detail') or '')
                    vio += v3
                    counters['second_generation_images'] = counters.get('second_generation_images', 0) + 1
                    s3.close()
    s2.close()
    # twin: rm_eltorito must leave nothing behind
    if sess.model.boot is not None:
        out = sess.step({'op': 'rm_eltorito'})
        if not out.ok:
            vio.append({'key': 'rm_eltorito-raises:%s' % out.exc_class, 'detail': out.exc_msg})
        else:
            img_rm, oc = sess.write()
            # the twin never adds El Torito; names created only through the boot catalog disappear with it
            twin_ops = [o for o in ops if o['op'] != 'add_eltorito' and not o.get('boot_catalog_old')]
            tw = driver.replay(cfg, twin_ops, seed)
            refused = [o for o, oc2 in tw.ops if not oc2.ok]
            img_tw, oc2 = tw.write()
            counters['twin_runs'] = counters.get('twin_runs', 0) + 1
            if not oc.ok:
                vio.append({'key': 'write-raises-after-rm:%s@%s' % (oc.exc_class, oc.exc_where), 'detail': oc.exc_msg})
            elif refused or not oc2.ok:
                counters['twin_inconclusive'] = counters.get('twin_inconclusive', 0) + 1
            else:
                a, b = img_rm.getvalue(), img_tw.getvalue()
                if a != b:
                    dec = common.decode_all(b)
                    idx = common.ExtentIndex(common.full_extent_map(dec))
                    # The continuation areas of Rock Ridge entries are handed out as the history goes: one
                    # that was allocated while the catalog's names still held room stays where it is (in
                    # a further block, even) when they go away.  That is fragmentation of the continuation
                    # blocks, not residue of El Torito, as long as both images decode to the same trees
                    # with the same continuation areas (number and lengths) and no boot record.
                    frag_only = False
                    if cfg.rr and (len(a) - len(b)) % 2048 == 0:
                        da_, db_ = common.decode_all(a), common.decode_all(b)
                        if da_['susp'] is not None and db_['susp'] is not None and da_['susp'].present and db_['susp'].present:
                            def sig_(d):
                                t = {p: (n.kind, n.length, n.hidden) for p, n in d['ecma'].pvd.tree.items()}
                                r = {p: (n.kind, n.mode, n.target, n.nlink) for p, n in d['susp'].logical.items()}
                                j = {p: (n.kind, n.length) for p, n in d['ecma'].joliet.tree.items()} if d['ecma'].joliet is not None else {}
                                areas = sorted(e_ - s_ for ent in d['susp'].entries.values() for (s_, e_) in ent.ce_areas)
                                import hashlib as _h
                                from harness.indep import ecma119 as _e3
                                img_ = a if d is da_ else b
                                datas = {p: _h.sha1(_e3.read_file(img_, n)).hexdigest() for p, n in d['ecma'].pvd.tree.items() if n.kind == 'file'}
                                return t, r, j, areas, datas, sorted(d['ecma'].all_problems()), sorted(d['susp'].problems)
                            nce = lambda d: sum(1 for k_, _i, _s, _e in common.full_extent_map(d) if k_ == 'rr-ce-sector')
                            frag_only = (sig_(da_) == sig_(db_) and not da_['eltorito'].present and not db_['eltorito'].present
                                         and (nce(da_) - nce(db_)) * 2048 == len(a) - len(b))
                            if frag_only:
                                counters['twin_ce_fragmentation_only'] = counters.get('twin_ce_fragmentation_only', 0) + 1
                    found = []
                    for s, e in common.diff_ranges(a, b, limit=6):
                        hit = idx.locate(s)
                        kind = hit[0] if hit else 'unmapped'
                        if hit and hit[0].endswith('-data') and 8 <= s - hit[2] < 64:
                            kind = 'boot-info-table'
                        found.append((kind, s, e))
                    layout_only = False
                    if len(a) == len(b) and all(k in ('iso-dir', 'enh-dir', 'rr-ce-sector') for k, _, _ in found):
                        # A continuation entry that was allocated and freed again leaves later
                        # entries at other offsets of the continuation sector: not residue of
                        # El Torito as long as both images decode to the same trees.
                        da, db = common.decode_all(a), common.decode_all(b)
                        def sig(d):
                            t = {p: (n.kind, n.length, n.hidden) for p, n in d['ecma'].pvd.tree.items()}
                            r = {p: (n.kind, n.mode, n.target, n.nlink) for p, n in d['susp'].logical.items()} if d['susp'] is not None and d['susp'].present else {}
                            return t, r, sorted(d['ecma'].all_problems()), sorted(d['susp'].problems) if d['susp'] is not None else []
                        layout_only = sig(da) == sig(db) and not da['eltorito'].present
                        if layout_only:
                            counters['twin_layout_only_diff'] = counters.get('twin_layout_only_diff', 0) + 1
                    # (file contents are part of the comparison above, so data that merely moved is fine;
                    # the system area is not described by any tree)
                    if frag_only and any(k == 'system-area' or (k == 'unmapped' and s_ < 32768) for k, s_, _e in found):
                        frag_only = False
                    if not layout_only and not frag_only:
                        if len(a) != len(b):
                            vio.append({'key': 'rm-residue:size', 'detail': 'after rm_eltorito %d bytes, never-added twin %d bytes' % (len(a), len(b))})
                        for kind, s, e in found:
                            vio.append({'key': 'rm-residue:%s' % kind, 'detail': 'bytes %d..%d differ from the twin that never had El Torito' % (s, e)})
            tw.close()
    sess.close()
    return c01.dedup(vio), et


def run_case(i, seed, tier):
    counters = {}
    cs = seed * 1000003 + i
    cfg, pre, boot, post = build(cs, tier)
    vio, et = check(cfg, pre + boot + post, cs, counters)
    nboot = sum(1 for o in boot if o['op'] == 'add_eltorito')
    bit = any(o.get('boot_info_table') for o in boot)
    nt = (nboot >= 2 or bit) and len(post) > 0
    ops = pre + boot + post
    return {'verdict': 'violated' if vio else 'held',
            'violations': [dict(v, replay=common.replay_doc(PROPERTY, cfg, ops, cs, split=[len(pre), len(boot), len(post)])) for v in vio],
            'nontrivial': nt, 'shape': common.shape_of(cfg, ops, str([(o.get('media_name'), o.get('platform_id'), o.get('boot_info_table')) for o in boot if o['op'] == 'add_eltorito'])),
            'sample': {'cfg': cfg.to_json(), 'pre': len(pre), 'post': len(post), 'boot_ops': common.short_ops([o for o in boot if o['op'] == 'add_eltorito'], 4)},
            'counters': counters}


def replay(doc):
    cfg, ops, seed = common.doc_cfg_ops(doc)
    vio, _ = check(cfg, ops, seed, {})
    return vio
