"""C07 Hard-link semantics: content lives exactly as long as its last name."""
import os
import random

from harness import driver, env
from harness.gen import Gen
from harness.indep import ecma119
from harness.model import join
from harness.props import common, c04

PROPERTY = 'C07'
LEVEL = 'exploration'
RULE = ('"links" histories (add_fp / add_hard_link / rm_hard_link / rm_file / add_eltorito / rm_eltorito across ISO9660, Joliet, UDF and '
        'boot-catalog references, several zero-length files, on fresh and on reopened images). After EVERY edit (quiescent point of the '
        'single-threaded object) the API view of all namespaces is compared with the model link groups (incl. lookups of just-removed '
        'names, which must fail); at write points the independent decoders give the data extents: names of one content share one extent, '
        'different contents are disjoint, content referenced only by El Torito is still stored; a final "drain" removes every reference '
        'of one content one by one with a write after each step: the bytes stay until the last reference goes and then the content is gone '
        'from the image and the declared size has dropped by at least its sectors. distinct = (configuration, op-kind sequence); '
        'non-trivial = a content with >= 3 names in >= 2 namespaces whose last reference is removed through a namespace other than the one '
        'that created it')
ASSUMPTIONS = ['reference model for link groups', 'independent decoders for extents', 'zero-length files: only the documented weaker rule is required']
REQUIRED_COUNTERS = {'live_view_checks': 200, 'drain_steps': 20}


def plan(tier):
    return 500 if tier == 'quick' else 15000


def live_check(s, vio, counters, after):
    counters['live_view_checks'] = counters.get('live_view_checks', 0) + 1
    for k, d in common.compare_views(s.model, s.iso):
        parts = k.split(':')
        vio.append({'key': 'live:%s:%s:after=%s' % (parts[1], parts[2] if len(parts) > 2 else '', after), 'detail': d})


def stale_check(s, removed, vio, counters):
    for ns, path in removed:
        key = {'iso': 'iso_path', 'joliet': 'joliet_path', 'udf': 'udf_path', 'rr': 'rr_path'}[ns]
        if path in s.model.view(ns):
            continue
        try:
            rec = s.iso.get_record(**{key: path})
            if rec is not None:
                vio.append({'key': 'stale-lookup:%s' % ns, 'detail': 'get_record(%s=%r) still finds the removed entry' % (key, path[:80])})
        except Exception as e:
            if type(e).__name__ != 'PyCdlibInvalidInput':
                vio.append({'key': 'stale-lookup:%s:raises:%s' % (ns, type(e).__name__), 'detail': str(e)})
        counters['stale_lookups'] = counters.get('stale_lookups', 0) + 1


def names_view(model):
    out = set()
    for ns in ('iso', 'joliet', 'udf'):
        for p in model.ns[ns]:
            out.add((ns, p))
    if model.cfg.rr:
        for p in model.view('rr'):
            out.add(('rr', p))
    return out


def run_history(cfg, ops, seed, counters, reopen_at=None, drain=True):
    from harness.props import c01
    vio = []
    released = []
    env.reset(seed)
    s = driver.Session(cfg, seed).new()
    for i, op in enumerate(ops):
        if reopen_at is not None and i == reopen_at:
            img, oc = s.write()
            if not oc.ok:
                vio.append({'key': 'write-raises:%s@%s' % (oc.exc_class, oc.exc_where), 'detail': oc.exc_msg})
                break
            s2, oc = s.reopen(img.getvalue())
            if not oc.ok:
                vio.append({'key': 'reopen-raises:%s@%s' % (oc.exc_class, oc.exc_where), 'detail': oc.exc_msg})
                break
            s.close()
            s = s2
        before = names_view(s.model)
        contents_before = {cid: c for cid, c in s.model.contents.items() if cid != 'catalog' and c.length >= 64}
        out = s.step(op)
        if not out.ok:
            continue
        for cid, c in contents_before.items():
            if cid not in s.model.contents:
                released.append((op['op'], cid, c.bytes()[:48], (c.length + 2047) // 2048))
        if s.model_errors:
            vio.append({'key': 'accepted-unknown:%s' % op['op'], 'detail': '%s accepted although the model has no such entry: %s' % (op['op'], s.model_errors[-1][1])})
            break
        after = names_view(s.model)
        n0 = len(vio)
        live_check(s, vio, counters, op['op'])
        stale_check(s, before - after, vio, counters)
        if len(vio) > n0:
            break
    if not vio:
        img, oc = s.write()
        if not oc.ok:
            vio.append({'key': 'write-raises:%s@%s' % (oc.exc_class, oc.exc_where), 'detail': oc.exc_msg})
        else:
            for v in c04.check_image(img, s.model, counters):
                if v['key'].startswith('share:') or v['key'].startswith('overlap:'):
                    vio.append(v)
            final = img.getvalue()
            for opname, cid, probe, sect in released:
                counters['released_contents_checked'] = counters.get('released_contents_checked', 0) + 1
                if final.find(probe) >= 0:
                    vio.append({'key': 'leak:%s:bytes' % opname, 'detail': 'content %r was released by %s (last reference gone) but its bytes are still stored in the image' % (cid, opname)})
            if drain:
                vio += drain_one(s, img.getvalue(), counters)
    s.close()
    return c01.dedup(vio)


def drain_one(s, data_before, counters):
    """Remove every reference of one content, one by one."""
    vio = []
    m = s.model
    rng = random.Random(len(data_before))
    cands = [cid for cid, c in m.contents.items() if cid != 'catalog' and c.length >= 64 and not m.boot_refs(cid) and len(m.names_of(cid)) >= 1]
    if not cands:
        return vio
    cid = max(cands, key=lambda c: (len(m.names_of(c)), str(c)))
    content = m.contents[cid].bytes()
    probe = content[:48]
    sectors = (len(content) + 2047) // 2048
    size0 = ecma119.decode(data_before, want_files=False).space_size
    if data_before.find(probe) < 0:
        return [{'key': 'drain:content-not-stored', 'detail': 'content %r not found in the image although it has names' % cid}]
    names = m.names_of(cid)
    rng.shuffle(names)
    for k, (ns, p) in enumerate(names):
        out = s.step({'op': 'rm_hard_link', '%s_path' % ns: p})
        counters['drain_steps'] = counters.get('drain_steps', 0) + 1
        if not out.ok:
            vio.append({'key': 'drain:rm_hard_link-raises:%s' % out.exc_class, 'detail': '%s %s: %s' % (ns, p[:60], out.exc_msg)})
            return vio
        img, oc = s.write()
        if not oc.ok:
            vio.append({'key': 'drain:write-raises:%s@%s' % (oc.exc_class, oc.exc_where), 'detail': oc.exc_msg})
            return vio
        d = img.getvalue()
        last = (k == len(names) - 1)
        present = d.find(probe) >= 0
        size = ecma119.decode(d, want_files=False).space_size
        if not last and not present:
            vio.append({'key': 'early-release:rm_hard_link', 'detail': 'content %r vanished after removing %d of %d names' % (cid, k + 1, len(names))})
            return vio
        if last:
            if present:
                vio.append({'key': 'leak:rm_hard_link:bytes', 'detail': 'content %r still stored after its last name (%s %s) was removed' % (cid, ns, p[:60])})
            if size > size0 - sectors:
                vio.append({'key': 'leak:rm_hard_link:size', 'detail': 'declared size %d -> %d sectors after releasing %d sectors of content' % (size0, size, sectors)})
            for k2, d2 in common.compare_views(s.model, s.iso):
                vio.append({'key': 'drain:' + k2, 'detail': d2})
    return vio


def build(cs, tier):
    g = Gen(cs, 'links')
    rng = g.rng
    cfg = g.cfg(index=cs)
    h = common.History(cfg, cs, 'links', max_size=6000)
    # several empty files and a richly linked content up front
    for _ in range(rng.choice([0, 2, 3])):
        h.apply(g.op_add_fp(h.sess.model, length=0, spread=rng.choice(['all', None])))
    h.gen.uniq = g.uniq + 50
    h.gen.next_cid = g.next_cid + 50
    h.extend(rng.choice([8, 16, 30]))
    if rng.random() < 0.35:
        from harness.props import c11
        bop = c11.boot_file_op(h.gen, rng, h.sess.model, 'noemul')
        if h.apply(bop).ok:
            et = {'op': 'add_eltorito', 'bootfile_path': bop['iso_path']}
            reuse_cat = cfg.joliet and rng.random() < 0.4
            if reuse_cat:
                # the catalog gets a Joliet name; that name is unlinked and given to a new file
                # before El Torito is removed again (the new file must stay)
                et['bootcatfile'] = '/BOOT.CAT;1' if cfg.level < 4 else '/boot.cat'
                et['joliet_bootcatfile'] = '/boot.cat'
                if cfg.rr:
                    et['rr_bootcatname'] = 'boot.cat'
            h.apply(et)
            if reuse_cat and h.sess.model.boot is not None:
                if h.apply({'op': 'rm_hard_link', 'joliet_path': '/boot.cat'}).ok:
                    h.apply({'op': 'add_fp', 'cid': h.gen.new_cid(), 'length': rng.choice([5, 2048]), 'joliet_path': '/boot.cat'})
            h.extend(rng.choice([2, 6]))
            if rng.random() < 0.4:
                # hide the boot file completely: El Torito now holds the last reference
                for ns, p in list(h.sess.model.names_of(bop['cid'])):
                    h.apply({'op': 'rm_hard_link', '%s_path' % ns: p})
                h.extend(rng.choice([0, 3]))
                h.apply({'op': 'rm_eltorito'})
                h.extend(rng.choice([0, 3]))
            elif rng.random() < 0.5:
                h.apply({'op': 'rm_eltorito'})
                h.extend(rng.choice([0, 4]))
    ops = list(h.ops)
    h.sess.close()
    reopen_at = rng.randint(1, len(ops)) if (ops and rng.random() < 0.4) else None
    return cfg, ops, reopen_at


def nameless_boot(params, counters):
    """A boot file whose names are all removed (El Torito holds the last reference), the image
    mastered and opened again 0..2 times, then rm_eltorito: the result must open and must declare
    exactly the size of a twin image that never had the boot file or El Torito (content and space
    released when the last reference goes), with the same trees.  params: dict(level, joliet, udf,
    rr, length, load_size, reopens, others)."""
    import io
    import pycdlib
    from pycdlib import pycdlibexception
    vio = []
    level, joliet, udf, rr = params['level'], params['joliet'], params['udf'], params['rr']
    length, bls, reopens = params['length'], params['load_size'], params['reopens']
    # (an image does not record the length of a boot file that has no name: the library takes
    # load size x 512 when it opens one, so a load size that covers another number of sectors than
    # the file is one mechanism whatever the symptom - see known_findings.json)
    differs = bls is not None and (bls * 512 + 2047) // 2048 != (length + 2047) // 2048
    tag = 'load-size-differs:reopened' if (differs and reopens > 0) else 'other'

    def base():
        env.reset(7)
        iso = pycdlib.PyCdlib()
        iso.new(interchange_level=level, joliet=3 if joliet else None, udf='2.60' if udf else None, rock_ridge='1.09' if rr else None)
        for k in range(params['others']):
            kw = {'iso_path': '/OTHER%d.;1' % k}
            if rr:
                kw['rr_name'] = 'other%d' % k
            if joliet:
                kw['joliet_path'] = '/other%d' % k
            if udf:
                kw['udf_path'] = '/other%d' % k
            d = bytes((k * 17 + j) & 0xff for j in range(300 + 900 * k))
            iso.add_fp(io.BytesIO(d), len(d), **kw)
        return iso

    def master(iso):
        out = io.BytesIO()
        iso.write_fp(out)
        return out.getvalue()

    def view(data):
        i2 = pycdlib.PyCdlib()
        i2.open_fp(io.BytesIO(data))
        v = {}
        for ns, kw in (('iso', 'iso_path'), ('joliet', 'joliet_path'), ('udf', 'udf_path')):
            if (ns == 'joliet' and not joliet) or (ns == 'udf' and not udf):
                continue
            v[ns] = sorted(os.path.join(d_, f_) for d_, ds_, fs_ in i2.walk(**{kw: '/'}) for f_ in list(fs_) + list(ds_))
        size = i2.pvd.space_size
        i2.close()
        return v, size

    try:
        twin = base()
        tdata = master(twin)
        twin.close()
        tview, tsize = view(tdata)
        iso = base()
        content = bytes((j * 5 + 1) & 0xff for j in range(length))
        kw = {'iso_path': '/BOOT.;1'}
        if rr:
            kw['rr_name'] = 'boot'
        if joliet:
            kw['joliet_path'] = '/boot'
        if udf:
            kw['udf_path'] = '/boot'
        iso.add_fp(io.BytesIO(content), length, **kw)
        ekw = {} if bls is None else {'boot_load_size': bls}
        if rr:
            ekw['rr_bootcatname'] = 'boot.cat'
        iso.add_eltorito('/BOOT.;1', **ekw)
        iso.rm_hard_link(iso_path='/BOOT.;1')
        if joliet:
            iso.rm_hard_link(joliet_path='/boot')
        if udf:
            iso.rm_hard_link(udf_path='/boot')
        for _ in range(reopens):
            d = master(iso)
            iso.close()
            iso = pycdlib.PyCdlib()
            iso.open_fp(io.BytesIO(d))
        iso.rm_eltorito()
        data = master(iso)
        iso.close()
        counters['nameless_boot_scenarios'] = counters.get('nameless_boot_scenarios', 0) + 1
    except pycdlibexception.PyCdlibException as e:
        return [{'key': ('nameless-boot:raises:%s:%s' % (type(e).__name__, tag)) if tag == 'other' else 'nameless-boot:' + tag, 'detail': '%s: %s %s' % (type(e).__name__, params, e)}]
    try:
        v, size = view(data)
    except pycdlibexception.PyCdlibException as e:
        return [{'key': ('nameless-boot:not-released:%s' % tag) if tag == 'other' else 'nameless-boot:' + tag, 'detail': 'the image mastered after rm_eltorito cannot be opened (%s: %s); %s' % (type(e).__name__, e, params)}]
    if size != tsize or len(data) != len(tdata):
        vio.append({'key': 'nameless-boot:not-released:%s' % tag, 'detail': 'declared size %d sectors (image %d bytes), a twin that never had the boot file declares %d (%d bytes); %s' % (size, len(data), tsize, len(tdata), params)})
    if v != tview:
        vio.append({'key': 'nameless-boot:view:%s' % tag, 'detail': 'trees differ from the twin: %s vs %s' % (str(v)[:120], str(tview)[:120])})
    if data.find(content[64:112]) >= 0:
        vio.append({'key': 'nameless-boot:bytes-still-stored:%s' % tag, 'detail': str(params)})
    if tag != 'other':
        vio = [{'key': 'nameless-boot:' + tag, 'detail': v['key'] + ': ' + v['detail']} for v in vio[:1]]
    return vio


def nameless_params(rng):
    return {'level': rng.choice([1, 3, 4]), 'joliet': rng.random() < 0.5, 'udf': rng.random() < 0.5, 'rr': rng.random() < 0.4,
            'length': rng.choice([100, 2048, 2049, 3003, 5000, 10000]), 'load_size': rng.choice([None, None, 1, 4, 8, 40]),
            'reopens': rng.choice([0, 1, 2]), 'others': rng.choice([0, 1, 3])}


def run_case(i, seed, tier):
    counters = {}
    cs = seed * 1000003 + i
    cfg, ops, reopen_at = build(cs, tier)
    vio = run_history(cfg, ops, cs, counters, reopen_at)
    if i % 4 == 1:
        params = nameless_params(random.Random(cs))
        for v in nameless_boot(params, counters):
            vio.append(dict(v, replay_override={'property': PROPERTY, 'witness_kind': 'nameless-boot', 'params': params}))
    names = [o['op'] for o in ops]
    nt = names.count('add_hard_link') >= 2 and (names.count('rm_hard_link') + names.count('rm_file')) >= 1 and len(cfg.namespaces()) >= 2
    return {'verdict': 'violated' if vio else 'held',
            'violations': [dict({k_: v_ for k_, v_ in v.items() if k_ != 'replay_override'},
                                replay=v.get('replay_override') or common.replay_doc(PROPERTY, cfg, ops, cs, reopen_at=reopen_at)) for v in vio],
            'nontrivial': nt, 'shape': common.shape_of(cfg, ops, str(reopen_at is not None)),
            'sample': {'cfg': cfg.to_json(), 'n_ops': len(ops), 'reopen_at': reopen_at, 'ops': common.short_ops(ops, 8)}, 'counters': counters}


def replay(doc):
    if doc.get('witness_kind') == 'nameless-boot':
        return nameless_boot(doc['params'], {})
    cfg, ops, seed = common.doc_cfg_ops(doc)
    ra = doc.get('reopen_at')
    if ra is not None:
        ra = min(ra, len(ops))
    return run_history(cfg, ops, seed, {}, ra)
