"""C09 Joliet fidelity: an independent tree of UCS-2 names over shared data."""
from harness import driver, env
from harness.gen import Gen
from harness.indep import ecma119
from harness.props import common

PROPERTY = 'C09'
LEVEL = 'exploration'
RULE = ('Joliet images (levels 1-3 x interchange level x Rock Ridge x UDF x XA) from random histories with Unicode names (BMP and beyond, '
        '1..64 UTF-8 bytes), Joliet-only and ISO-only entries, directory growth by UTF-16 length, removals, hard links across namespaces; '
        'plus name candidates 60..70 units probing the 64 limit. The supplementary descriptor is decoded by harness/indep/ecma119.py in '
        'UCS-2BE mode: structural rules of C03 on the SVD (path tables, sizes, ./..), tree and names vs the model, each Joliet file at the '
        'same extent as its ISO9660 link, and accept => exact name round trip and <= 64 UTF-16 units. distinct = (configuration, op-kind '
        'sequence); non-trivial = Joliet tree differs from the ISO tree and >= 1 non-ASCII name')
ASSUMPTIONS = ['harness/indep/ecma119.py is the trusted reader', 'refusing a legal Joliet name is not a violation of this property']
REQUIRED_COUNTERS = {'joliet_entries_checked': 200}


def plan(tier):
    return 800 if tier == 'quick' else 12000


def check_image(data, model, counters):
    vio = []
    dec = ecma119.decode(data)
    if dec.joliet is None:
        return [{'key': 'svd-missing', 'detail': 'no Joliet supplementary descriptor found'}], dec
    jl = {1: b'%/@', 2: b'%/C', 3: b'%/E'}[model.cfg.joliet]
    if dec.joliet.vd.escape.rstrip(b'\x00 ') != jl:
        vio.append({'key': 'escape', 'detail': 'escape sequence %r for Joliet level %d' % (dec.joliet.vd.escape[:4], model.cfg.joliet)})
    for k, d in dec.joliet.problems:
        if k.startswith('sort:'):
            continue
        vio.append({'key': k, 'detail': d})
    exp = model.view('joliet')
    got = {p: n for p, n in dec.joliet.tree.items() if p != '/'}
    counters['joliet_entries_checked'] = counters.get('joliet_entries_checked', 0) + len(got)
    for p in sorted(set(exp) - set(got)):
        vio.append({'key': 'tree:missing', 'detail': '%r (%s)' % (p[:100], exp[p][0])})
    for p in sorted(set(got) - set(exp)):
        vio.append({'key': 'tree:extra', 'detail': '%r (%s)' % (p[:100], got[p].kind)})
    iso_extent = {}
    for p, n in dec.pvd.tree.items():
        if n.kind == 'file':
            node = model.ns['iso'].get(p)
            if node is not None and node.kind == 'file' and node.cid is not None:
                iso_extent.setdefault(node.cid, set()).add((n.extent, n.length))
    for p in set(exp) & set(got):
        e, n = exp[p], got[p]
        if e[0] != n.kind and not (e[0] == 'symlink'):
            vio.append({'key': 'kind', 'detail': '%r built %s read %s' % (p[:80], e[0], n.kind)})
            continue
        if len(n.ident) // 2 > 64:
            vio.append({'key': 'too-long-accepted', 'detail': '%r has %d UTF-16 units' % (p[:80], len(n.ident) // 2)})
        if e[4] != n.hidden:
            vio.append({'key': 'hidden', 'detail': p[:80]})
        if e[0] == 'file' and e[2] is not None:
            c = model.contents[e[2]]
            if c.special != 'catalog':
                if n.length != c.length:
                    vio.append({'key': 'length', 'detail': '%r length %d expected %d' % (p[:80], n.length, c.length)})
                elif c.length and c.length <= (1 << 20):
                    raw = ecma119.read_file(data, n)
                    exp_b = c.bytes()
                    if c.bit:
                        raw, exp_b = common.mask_bit(raw), common.mask_bit(exp_b)
                    if raw != exp_b:
                        vio.append({'key': 'bytes', 'detail': '%r content differs' % p[:80]})
                if c.length and e[2] in iso_extent and (n.extent, n.length) not in iso_extent[e[2]]:
                    vio.append({'key': 'extent-mismatch', 'detail': '%r at extent %d, its ISO9660 link at %s' % (p[:80], n.extent, sorted(iso_extent[e[2]]))})
    return vio, dec


def probe_limit(sess, g, counters):
    """Names around the 64-unit limit: accepted => <= 64 units and exact round trip (checked from the image)."""
    r = g.rng
    for _ in range(6):
        units = r.choice([60, 63, 64, 65, 66, 70])
        pool = r.choice(['a', 'é', '日', '\U0001F600'])
        per = 2 if pool == '\U0001F600' else 1
        name = (pool * (units // per))[: units // per] + 'z' * (units - per * (units // per))
        name = 'p%d' % g._u() + name[len('p%d' % g.uniq):]
        op = {'op': 'add_directory', 'joliet_path': '/' + name}
        out = sess.step(op)
        counters['limit_probes'] = counters.get('limit_probes', 0) + 1
        if out.ok:
            counters['limit_probes_accepted'] = counters.get('limit_probes_accepted', 0) + 1


def run_case(i, seed, tier):
    from harness.props import c01
    counters = {}
    cs = seed * 1000003 + i
    g = Gen(cs)
    cfg = g.cfg(index=i + seed * 31, require=lambda c: c.joliet is not None)
    h = common.History(cfg, cs, ['std', 'churn', 'grow', 'links'][i % 4], max_size=4000)
    n_ = g.rng.choice([6, 15, 30, 50])
    if i % 10 == 7:
        # Joliet directories filled exactly / growing and shrinking around subdirectories
        which = ['joliet-exact-fill', 'shrink-subdir', 'joliet-exact-fill', 'grow-subdir'][(i // 10) % 4]
        scfg, sops = common.special_layout(g, which)
        if not scfg.joliet:
            scfg, sops = common.special_layout(g, 'joliet-exact-fill')
        h.sess.close()
        cfg = scfg
        h = common.History(cfg, cs, 'std', max_size=4000)
        for op in sops:
            h.apply(op)
        counters['special_layouts'] = 1
    elif i % 6 == 3:
        # edits continued on an object that opened the image mastered so far
        h.extend(n_ // 2)
        counters['reopened_histories'] = 1 if h.reopen(reuse=(i % 2 == 1)) else 0
        h.extend(n_ - n_ // 2)
    else:
        h.extend(n_)
    if i % 3 == 0:
        probe_limit(h.sess, h.gen, counters)
    ops = list(h.sess.accepted)
    img, oc = h.sess.write()
    model = h.sess.model
    if not oc.ok:
        vio = [{'key': 'write-raises:%s@%s' % (oc.exc_class, oc.exc_where), 'detail': oc.exc_msg}]
        dec = None
    else:
        vio, dec = check_image(img.getvalue(), model, counters)
    h.sess.close()
    vio = c01.dedup(vio)
    jn = set(model.ns['joliet'])
    nt = any(ord(ch) > 127 for p in jn for ch in p) and len(jn) > 0 and len(jn) != len(model.ns['iso'])
    return {'verdict': 'violated' if vio else 'held',
            'violations': [dict(v, replay=common.replay_doc(PROPERTY, cfg, ops, cs)) for v in vio],
            'nontrivial': nt, 'shape': common.shape_of(cfg, ops),
            'sample': {'cfg': cfg.to_json(), 'n_ops': len(ops), 'joliet_names': sorted(jn)[:4]}, 'counters': counters}


def replay(doc):
    from harness.props import c01
    cfg, ops, seed = common.doc_cfg_ops(doc)
    sess = driver.replay(cfg, ops, seed)
    img, oc = sess.write()
    if not oc.ok:
        return [{'key': 'write-raises:%s@%s' % (oc.exc_class, oc.exc_where), 'detail': oc.exc_msg}]
    vio, _ = check_image(img.getvalue(), sess.model, {})
    sess.close()
    return c01.dedup(vio)
