"""C18 Derived names are always legal: mangling is total and level-correct."""
import importlib.machinery
import importlib.util
import io
import os
import random
import re

from harness import driver, env
from harness.props import common

PROPERTY = 'C18'
LEVEL = 'exploration'
RULE = ('valid Unix names (non-empty, no "/" or NUL, not "." / "..") from a Unicode generator biased to case mappings that change '
        'length (ß ŉ ǰ ΐ ﬁ ...), dots, controls, non-BMP, lengths around 8/30/31/64, at levels 1-4, files and directories: '
        '(a) independent legality predicate on mangle_file_for_iso9660 / mangle_dir_for_iso9660 / truncate_basename / '
        'iso_path_to_rr_name results, (b) the library accepts the derived identifier in add_fp / add_directory on a fresh image, '
        '(c) already-legal inputs come back unchanged, (d) Rock Ridge / ISO9660 facade round trip (add by long name, read back by '
        'long name, sets of names colliding after mangling), (e) build_iso_path of pycdlib-genisoimage on colliding sets. '
        'one case = 200 strings + 6 facade runs + 4 collision sets; distinct = set of (level, kind, rule-class) classes met; '
        'non-trivial = case contains a string with a non-d-character or beyond a length limit')
ASSUMPTIONS = ['the legality predicate implements the rules the library documents (d-characters, 8.3 at level 1, 30/31 at levels 2-3, version 1..32767)']
REQUIRED_COUNTERS = {'strings_checked': 1000, 'library_acceptance_checked': 100, 'facade_roundtrips': 10}

# characters whose case mapping changes their length or class, and characters that Unicode-aware
# string predicates take for digits / letters although they are not d-characters
SPECIAL = ['ß', 'ŉ', 'ǰ', 'ΐ', 'ΰ', 'ﬁ', 'ﬂ', 'ﬃ', 'ﬆ', 'ẞ', 'İ', 'ı', 'ǅ', 'ᾳ', 'և',
           '\u0663', '\uff12', '\u096b', '\u0e53', '\u00b2', '\u2167', '\uff3a', '\uff5a', '\u00aa', '\u2460', '\U0001d7d8']
POOLS = ['abcdefghijklmnopqrstuvwxyz', 'ABCDEFGHIJKLMNOPQRSTUVWXYZ0123456789_', '.-+ ~!@#$%^&()[]{};,=', 'àéîõüçñøå', 'αβγδε', 'абвгд',
         '日本語', '\U0001F600\U00010348', '\x01\x07\x1f\x7f']
DCH = set('ABCDEFGHIJKLMNOPQRSTUVWXYZ0123456789_')


def plan(tier):
    return 400 if tier == "quick" else 10000


def gen_name(rng):
    n = rng.choice([1, 2, 3, 7, 8, 9, 12, 29, 30, 31, 32, 63, 64, 65, 100]) if rng.random() < 0.7 else rng.randint(1, 40)
    x = rng.random()
    if x < 0.25:
        pool = POOLS[1]            # already legal-ish
    elif x < 0.45:
        pool = POOLS[0] + POOLS[1]
    else:
        pool = ''.join(rng.sample(POOLS, rng.randint(1, 4)))
    s = ''
    while len(s) < n:
        if rng.random() < 0.12:
            s += rng.choice(SPECIAL)
        else:
            s += rng.choice(pool)
    if rng.random() < 0.6:
        # insert dots
        for _ in range(rng.choice([1, 1, 1, 2, 3])):
            p = rng.randint(0, len(s))
            s = s[:p] + '.' + s[p:]
    s = s.replace('/', '_').replace('\x00', '_')
    if s in ('.', '..') or not s:
        s = 'x' + s
    return s


def legal_file(ident, level):
    """ident = 'BASE.EXT;V' as it will be passed as the last path component."""
    body, sep, ver = ident.rpartition(';')
    if not sep:
        body, ver = ident, ''
    if level == 4:
        return bool(body) or None
    if ver == '' or not ver.isdigit() or not (1 <= int(ver) <= 32767):
        return 'version'
    if ';' in body:
        return 'semicolon'
    name, dot, ext = body.rpartition('.')
    if not dot:
        name, ext = body, ''
    if not name and not ext:
        return 'empty'
    if set(name) - DCH or set(ext) - DCH:
        return 'characters'
    if level == 1 and (len(name) > 8 or len(ext) > 3):
        return 'length-8.3'
    if level in (2, 3) and len(name) + len(ext) > 30:
        return 'length-30'
    return True


def legal_dir(ident, level):
    if not ident:
        return 'empty'
    if level == 4:
        return True
    if set(ident) - DCH:
        return 'characters'
    if level == 1 and len(ident) > 8:
        return 'length-8'
    if level in (2, 3) and len(ident) > 31:
        return 'length-31'
    return True


def level4_class(name, exc):
    if type(exc).__name__ != 'PyCdlibInvalidInput':
        return None
    if name in ('\x00', '\x01'):
        return 'reserved-byte'
    if ';' in name:
        return 'semicolon'
    if len(name.encode('utf-8')) > 180:
        return 'too-long'
    return None


def input_class(s):
    c = []
    if any(ch in s for ch in SPECIAL):
        c.append('case-expanding')
    if set(s.upper()) - DCH - {'.'}:
        c.append('non-d')
    if s.count('.') > 1:
        c.append('multi-dot')
    if len(s) > 30:
        c.append('long')
    return '+'.join(c) or 'plain'


_tool = [None]


def load_tool():
    if _tool[0] is None:
        path = os.path.join(env.REPO, 'tools', 'pycdlib-genisoimage')
        loader = importlib.machinery.SourceFileLoader('pycdlib_genisoimage_tool', path)
        spec = importlib.util.spec_from_loader('pycdlib_genisoimage_tool', loader)
        mod = importlib.util.module_from_spec(spec)
        loader.exec_module(mod)
        _tool[0] = mod
    return _tool[0]


def check_strings(rng, n, counters, classes, explicit=None):
    import pycdlib
    from pycdlib import utils, facade
    vio = []
    for idx in range(n if explicit is None else len(explicit)):
        if explicit is None:
            s = gen_name(rng)
            level = rng.choice([1, 2, 3, 4])
        else:
            s, level = explicit[idx]
        cls = input_class(s)
        counters['strings_checked'] = counters.get('strings_checked', 0) + 1
        # --- files
        try:
            base, ext = utils.mangle_file_for_iso9660(s, level)
        except Exception as e:
            vio.append({'key': 'raises:mangle_file:%s' % type(e).__name__, 'detail': '%r level %d: %s' % (s, level, e), 'replay': {'name': s, 'level': level}})
            continue
        ident = '.'.join([base, ext])
        ok = legal_file(ident, level)
        classes.add((level, 'file', cls))
        if ok is not True and ok is not None:
            vio.append({'key': 'illegal:%d:file:%s' % (level, ok), 'detail': 'mangle_file_for_iso9660(%r, %d) -> %r' % (s, level, ident), 'replay': {'name': s, 'level': level}})
        # idempotence on legal input
        if level < 4 and legal_file(s + ';1', level) is True and '.' in s:
            if ident != s + ';1':
                vio.append({'key': 'not-idempotent:file%s' % (':trailing-dot' if s.endswith('.') else ':long-extension' if len(s.rpartition('.')[2]) > 3 else ':%d' % level), 'detail': 'legal input %r came back as %r' % (s, ident), 'replay': {'name': s, 'level': level}})
        # --- directories
        try:
            d = utils.mangle_dir_for_iso9660(s, level)
        except Exception as e:
            vio.append({'key': 'raises:mangle_dir:%s' % type(e).__name__, 'detail': '%r level %d: %s' % (s, level, e), 'replay': {'name': s, 'level': level}})
            continue
        okd = legal_dir(d, level)
        classes.add((level, 'dir', cls))
        if okd is not True:
            vio.append({'key': 'illegal:%d:dir:%s' % (level, okd), 'detail': 'mangle_dir_for_iso9660(%r, %d) -> %r' % (s, level, d), 'replay': {'name': s, 'level': level}})
        if level < 4 and legal_dir(s, level) is True and d != s:
            vio.append({'key': 'not-idempotent:%d:dir' % level, 'detail': 'legal input %r came back as %r' % (s, d), 'replay': {'name': s, 'level': level}})
        # --- library acceptance (sampled)
        if explicit is not None or rng.random() < 0.25:
            counters['library_acceptance_checked'] = counters.get('library_acceptance_checked', 0) + 1
            iso = pycdlib.PyCdlib()
            iso.new(interchange_level=level)
            try:
                iso.add_fp(io.BytesIO(b'x'), 1, iso_path='/' + ident)
            except Exception as e:
                if ok is True or ok is None:
                    cls = type(e).__name__
                    l4 = level4_class(s, e) if level == 4 else None
                    vio.append({'key': ('level4-identity:%s' % l4) if l4 else 'refused-by-library:%d:file%s' % (level, '' if cls == 'PyCdlibInvalidInput' else ':' + cls), 'detail': 'add_fp(iso_path=%r) derived from %r: %s' % ('/' + ident, s, e), 'replay': {'name': s, 'level': level}})
            try:
                iso.add_directory(iso_path='/' + d + ('X' if False else ''))
            except Exception as e:
                if okd is True and d != ident:
                    l4 = level4_class(s, e) if level == 4 else None
                    vio.append({'key': ('level4-identity:%s' % l4) if l4 else 'refused-by-library:%d:dir:%s' % (level, type(e).__name__), 'detail': 'add_directory(iso_path=%r) derived from %r: %s' % ('/' + d, s, e), 'replay': {'name': s, 'level': level}})
            try:
                out = io.BytesIO()
                iso.write_fp(out)
            except Exception as e:
                vio.append({'key': 'write-fails-after-derived-name:%s' % type(e).__name__, 'detail': '%r level %d: %s' % (s, level, e), 'replay': {'name': s, 'level': level}})
            iso.close()
    return vio


def check_facade(rng, counters, classes):
    """Rock Ridge facade: add by long name, read back by long name."""
    import pycdlib
    vio = []
    level = rng.choice([1, 2, 3, 4])
    rrv = rng.choice(['1.09', '1.12'])
    iso = pycdlib.PyCdlib()
    old_facade = None
    if rng.random() < 0.3:
        # the object (and a facade taken from it) has had an earlier life at another interchange level
        prev = rng.choice([l_ for l_ in (1, 2, 3, 4) if l_ != level])
        iso.new(interchange_level=prev, rock_ridge=rrv)
        old_facade = iso.get_rock_ridge_facade()
        old_facade.add_fp(io.BytesIO(b'x'), 1, '/earlier.txt', 0o100644)
        iso.close()
        counters['facade_second_life'] = counters.get('facade_second_life', 0) + 1
    iso.new(interchange_level=level, rock_ridge=rrv)
    reopened = level == 4 and rng.random() < 0.4
    if reopened:
        # an ISO9660:1999 image that was mastered and opened again is still a level 4 image
        o0 = io.BytesIO()
        iso.write_fp(o0)
        iso.close()
        iso = pycdlib.PyCdlib()
        iso.open_fp(io.BytesIO(o0.getvalue()))
    rr = old_facade if (old_facade is not None and not reopened) else iso.get_rock_ridge_facade()
    names = []
    base = gen_name(rng)
    coll = rng.random() < 0.4
    # names that are legal as they are at the image's level
    if level == 4:
        plain_names = ['readme%d.txt' % rng.randint(0, 99), 'notes.%d' % rng.randint(0, 9)]
    elif level == 1:
        plain_names = ['README%d.TXT' % rng.randint(0, 99), 'A_%d.B' % rng.randint(0, 9)]
    else:
        plain_names = ['LONGFILENAME%d.TXT' % rng.randint(0, 99), 'NOTES_%d.BAK' % rng.randint(0, 9), 'A_NAME_OF_THIRTY_CHARACTERS.%03d' % rng.randint(0, 99)]
    for k in range(rng.randint(1, 4)):
        n = (base[:12] + '%d' % k + base[12:]) if coll else gen_name(rng)
        n = n.replace('/', '_')
        if n in names or n in ('.', '..'):
            continue
        names.append(n)
    names = plain_names + names
    added = {}
    for k, n in enumerate(names):
        data = ('content-%d-%s' % (k, n)).encode('utf-8')
        counters['facade_roundtrips'] = counters.get('facade_roundtrips', 0) + 1
        try:
            rr.add_fp(io.BytesIO(data), len(data), '/' + n, 0o100644)
            added[n] = data
        except Exception as e:
            l4 = level4_class(n, e) if level == 4 else None
            kind = 'collision' if ('duplicate' in str(e).lower()) else type(e).__name__
            vio.append({'key': ('level4-identity:%s' % l4) if (l4 and kind != 'collision') else 'facade:rr:add_fp:%s' % kind, 'detail': 'level %d add_fp(rr_path=%r): %s: %s' % (level, '/' + n, type(e).__name__, e),
                        'replay': {'facade_seed': None}})
    for n, data in added.items():
        try:
            out = io.BytesIO()
            rr.get_file_from_iso_fp(out, '/' + n)
            if out.getvalue() != data:
                vio.append({'key': 'facade:rr:wrong-entry', 'detail': 'level %d: reading %r returned %r' % (level, n, out.getvalue()[:40])})
        except Exception as e:
            vio.append({'key': 'facade:rr:read:%s' % type(e).__name__, 'detail': 'level %d get_file_from_iso_fp(rr_path=%r): %s' % (level, n, e)})
    if True:
        # names that are legal as they are at the image's level must have become the identifier
        # unchanged (apart from the appended version)
        try:
            idents = {c.file_identifier().decode('utf-8', 'replace') for c in iso.list_children(iso_path='/') if c is not None}
            for n in plain_names:
                if n in added and n not in idents and n + ';1' not in idents:
                    vio.append({'key': ('facade:rr:level4-identity:plain-name%s' % (':reopened' if reopened else '')) if level == 4 else 'facade:rr:identity:plain-name',
                                'detail': 'level %d%s: the identifier derived for %r is none of %s' % (level, ' (image opened again)' if reopened else '', n, sorted(idents)[:6])})
        except Exception as e:
            vio.append({'key': 'facade:rr:list:%s' % type(e).__name__, 'detail': str(e)})
    try:
        o = io.BytesIO()
        iso.write_fp(o)
    except Exception as e:
        vio.append({'key': 'facade:rr:write:%s' % type(e).__name__, 'detail': str(e)})
    iso.close()
    classes.add((level, 'facade', ('collision' if coll else 'plain') + ('-reopened' if reopened else '')))
    return vio


def check_facade_twin(rng, counters, classes):
    """ISO9660 / Joliet / UDF facades: the same random history through the facade and through the
    keyword API of a second object (virtual clock and seeds reset before each run) must give the
    same query results and byte-identical images: a facade neither fails nor addresses another
    entry than the plain call with the same path."""
    import pycdlib
    from harness import env
    from harness.gen import Gen
    vio = []
    which = rng.choice(['iso', 'joliet', 'udf', 'iso-on-rr'])
    level = rng.choice([1, 3, 4])
    kw = {'interchange_level': level}
    iso_on_rr = which == 'iso-on-rr'
    if iso_on_rr:
        # the ISO9660 facade on a Rock Ridge image derives the Rock Ridge names itself; the twin is
        # the same program through the same facade on an image without Rock Ridge: no call may end
        # differently because of a derived name
        which = 'iso'
    if which == 'joliet':
        kw['joliet'] = 3
    if which == 'udf':
        kw['udf'] = '2.60'
    key = {'iso': 'iso_path', 'joliet': 'joliet_path', 'udf': 'udf_path'}[which]
    seed = rng.randrange(1 << 30)
    g = Gen(seed)

    def name(isdir):
        if which == 'iso':
            for _ in range(20):
                nm = g.iso_dir_name(level) if isdir else g.iso_file_name(level)
                # (with Rock Ridge an identifier near the record limit leaves no room for the
                # Rock Ridge entries: a legitimate refusal that the plain twin does not have)
                if not iso_on_rr or len(nm.encode('utf-8')) <= 90:
                    return nm
            return 'N%d' % g._u() + ('' if isdir else '.;1')
        return g.uni_name() if which == 'joliet' else g.udf_name()
    # the program: generated once, replayed twice
    prog = []
    dirs, files = ['/'], []
    for _ in range(rng.choice([4, 10, 20])):
        x = rng.random()
        if x < 0.35 or not files:
            par = rng.choice(dirs)
            if which == 'iso' and par.count('/') >= 6:
                par = '/'
            pth = (par if par != '/' else '') + '/' + name(False)
            prog.append(('add_fp', pth, rng.choice([0, 1, 2048, 5000]), rng.randrange(1 << 30)))
            files.append(pth)
        elif x < 0.55:
            par = rng.choice(dirs)
            if which == 'iso' and par.count('/') >= 6:
                par = '/'
            pth = (par if par != '/' else '') + '/' + name(True)
            prog.append(('add_directory', pth))
            dirs.append(pth)
        elif x < 0.65 and files:
            pth = files.pop(rng.randrange(len(files)))
            prog.append(('rm_file', pth))
        elif x < 0.7 and len(dirs) > 1:
            pth = dirs[-1]
            if not any(f.startswith(pth + '/') for f in files) and not any(d.startswith(pth + '/') for d in dirs):
                dirs.pop()
                prog.append(('rm_directory', pth))
        elif x < 0.8 and which == 'udf':
            prog.append(('add_symlink', '/' + name(False), rng.choice(['a', '../b', '/x/y'])))
        elif x < 0.9:
            prog.append(('read', rng.choice(files)))
        else:
            prog.append(('list', rng.choice(dirs)))
    prog.append(('walk', '/'))

    def run(use_facade):
        env.reset(seed)
        iso = pycdlib.PyCdlib()
        if iso_on_rr:
            iso.new(**dict(kw, **({'rock_ridge': '1.09'} if use_facade else {})))
            use_facade = True
        else:
            iso.new(**kw)
        fac = {'iso': iso.get_iso9660_facade, 'joliet': iso.get_joliet_facade, 'udf': iso.get_udf_facade}[which]() if use_facade else None
        log = []
        keep = []
        for st in prog:
            try:
                if st[0] == 'add_fp':
                    fp = io.BytesIO(random.Random(st[3]).randbytes(st[2]))
                    keep.append(fp)
                    r = fac.add_fp(fp, st[2], st[1]) if fac else iso.add_fp(fp, st[2], **{key: st[1]})
                elif st[0] == 'add_directory':
                    r = fac.add_directory(st[1]) if fac else iso.add_directory(**{key: st[1]})
                elif st[0] == 'rm_file':
                    r = fac.rm_file(st[1]) if fac else iso.rm_file(**{key: st[1]})
                elif st[0] == 'rm_directory':
                    r = fac.rm_directory(st[1]) if fac else iso.rm_directory(**{key: st[1]})
                elif st[0] == 'add_symlink':
                    r = fac.add_symlink(st[1], st[2]) if fac else iso.add_symlink(udf_symlink_path=st[1], udf_target=st[2])
                elif st[0] == 'read':
                    b = io.BytesIO()
                    fac.get_file_from_iso_fp(b, st[1]) if fac else iso.get_file_from_iso_fp(b, **{key: st[1]})
                    r = hashlib.sha1(b.getvalue()).hexdigest()
                elif st[0] == 'list':
                    lst = fac.list_children(st[1]) if fac else iso.list_children(**{key: st[1]})
                    r = sorted(iso.full_path_from_dirrecord(c) for c in lst if c is not None and not (hasattr(c, 'is_dot') and (c.is_dot() or c.is_dotdot())) and not (which == 'udf' and getattr(c, 'isparent', False)))
                else:
                    w = fac.walk(st[1]) if fac else iso.walk(**{key: st[1]})
                    r = [(a, sorted(b_), sorted(c)) for a, b_, c in w]
                log.append(('ok', repr(r)[:300]))
            except Exception as e:
                log.append((type(e).__name__, str(e)[:100]))
        out = io.BytesIO()
        try:
            iso.write_fp(out)
            img = out.getvalue()
        except Exception as e:
            img = ('write-raises', type(e).__name__, str(e)[:100])
        iso.close()
        return log, img
    import hashlib
    la, ia = run(False)
    lb, ib = run(True)
    counters['facade_twin_runs'] = counters.get('facade_twin_runs', 0) + 1
    counters['facade_twin_steps'] = counters.get('facade_twin_steps', 0) + len(prog)
    for k_, (a, b) in enumerate(zip(la, lb)):
        if a != b:
            vio.append({'key': 'facade:%s:%s:differs' % (which, prog[k_][0]), 'detail': 'level %d step %d %r: keyword API %r, facade %r' % (level, k_, prog[k_][:2], a, b)})
            break
    else:
        if ia != ib and not iso_on_rr:
            vio.append({'key': 'facade:%s:image-differs' % which, 'detail': 'level %d: %d steps, images differ (%s)' % (level, len(prog), 'lengths %d/%d' % (len(ia), len(ib)) if isinstance(ia, bytes) and isinstance(ib, bytes) else (ia if not isinstance(ia, bytes) else ib))})
    if iso_on_rr:
        which = 'iso-on-rr'
        vio = [dict(v, key=v['key'].replace('facade:iso:', 'facade:iso-on-rr:')) for v in vio]
    classes.add((level, 'facade-twin', which))
    return vio


def check_tool_collisions(rng, counters, classes):
    vio = []
    try:
        tool = load_tool()
    except Exception as e:
        return [{'key': 'tool-import:%s' % type(e).__name__, 'detail': str(e)}]
    level = rng.choice([1, 2, 3, 4])
    is_dir = rng.random() < 0.4
    parent = tool.DirLevel('/', '/', '/')
    base = gen_name(rng)
    seen = {}
    for k in range(rng.choice([2, 5, 12, 40])):
        n = base[:10] + ('%d' % k if rng.random() < 0.8 else gen_name(rng)[:3]) + base[10:]
        p = tool.build_iso_path(parent, n, level, is_dir)
        counters['tool_paths'] = counters.get('tool_paths', 0) + 1
        if p is None:
            continue
        ident = p.rsplit('/', 1)[1]
        ok = legal_dir(ident, level) if is_dir else legal_file(ident, level)
        if ok is not True and ok is not None:
            vio.append({'key': 'collision:illegal:%d:%s:%s' % (level, 'dir' if is_dir else 'file', ok), 'detail': 'build_iso_path(%r) -> %r' % (n, p)})
        if p in seen:
            vio.append({'key': 'collision:duplicate', 'detail': '%r and %r both map to %r' % (seen[p], n, p)})
        seen[p] = n
    # a name that is legal already and is used in *another* directory must stay as it is: every
    # directory level has its own set of used names
    legal = ('QZ%d' % rng.randint(0, 99)) if is_dir else ('QZ%d.TXT' % rng.randint(0, 99))
    want = legal if (is_dir or level == 4) else legal + ';1'
    first = tool.build_iso_path(parent, legal, level, is_dir)
    other = tool.DirLevel('/OTHER', '/other', '/other')
    second = tool.build_iso_path(other, legal, level, is_dir)
    counters['tool_paths'] = counters.get('tool_paths', 0) + 2
    for got, lvl in ((first, parent), (second, other)):
        if got is not None and got.rsplit('/', 1)[1] not in (want, legal + ';1', legal):
            vio.append({'key': 'collision:spurious:%s' % ('dir' if is_dir else 'file'),
                        'detail': 'build_iso_path(%r) in directory %s -> %r although no entry of that directory uses the name' % (legal, lvl.iso_path, got)})
    classes.add((level, 'tool', 'dir' if is_dir else 'file'))
    return vio


def run_case(i, seed, tier):
    from harness.props import c01
    counters = {}
    classes = set()
    rng = random.Random(seed * 1000003 + i)
    vio = check_strings(rng, 200, counters, classes)
    for _ in range(6):
        vio += check_facade(rng, counters, classes)
    for _ in range(4):
        vio += check_tool_collisions(rng, counters, classes)
    for _ in range(3):
        vio += check_facade_twin(rng, counters, classes)
    vio = c01.dedup(vio)
    for v in vio:
        v.setdefault('replay', {})
        v['replay'].update({'property': PROPERTY, 'case_seed': seed * 1000003 + i})
    import hashlib
    return {'verdict': 'violated' if vio else 'held', 'violations': vio, 'nontrivial': any(c[2] != 'plain' for c in classes),
            'shape': hashlib.sha1(repr(sorted(classes)).encode()).hexdigest()[:16] + '/%d' % i,
            'sample': {'classes_met': len(classes), 'example_names': [gen_name(random.Random(seed + i + k)) for k in range(3)]},
            'counters': counters}


def replay(doc):
    from harness.props import c01
    if 'witness_kind' in doc:
        return c01.dedup(replay_witness(doc))
    rng = random.Random(doc['case_seed'])
    counters, classes = {}, set()
    vio = check_strings(rng, 200, counters, classes)
    for _ in range(6):
        vio += check_facade(rng, counters, classes)
    for _ in range(4):
        vio += check_tool_collisions(rng, counters, classes)
    return c01.dedup(vio)


def replay_witness(doc):
    """Deterministic witnesses for known findings."""
    import pycdlib
    from pycdlib import utils
    vio = []
    k = doc['witness_kind']
    if k == 'strings':
        vio += check_strings(random.Random(0), 0, {}, set(), explicit=[tuple(x) for x in doc['strings']])
    elif k == 'facade-collision':
        iso = pycdlib.PyCdlib()
        iso.new(interchange_level=doc['level'], rock_ridge='1.09')
        rr = iso.get_rock_ridge_facade()
        for n in doc['names']:
            try:
                rr.add_fp(io.BytesIO(b'x'), 1, '/' + n, 0o100644)
            except Exception as e:
                l4 = level4_class(n, e) if doc['level'] == 4 else None
                kind = 'collision' if ('duplicate' in str(e).lower()) else type(e).__name__
                vio.append({'key': ('level4-identity:%s' % l4) if (l4 and kind != 'collision') else 'facade:rr:add_fp:%s' % kind, 'detail': '%r: %s' % (n, e)})
        iso.close()
    return vio
