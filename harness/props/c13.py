"""C13 Namespace rules: unique names, legal identifiers, refused otherwise."""
import random

from harness import driver, env
from harness.gen import Gen, D1
from harness.indep import ecma119, udf as iudf
from harness.model import Cfg, join
from harness.props import common

PROPERTY = 'C13'
LEVEL = 'exploration'
RULE = ('(a) candidate identifiers from byte/Unicode alphabets (case, dots, semicolons, versions incl. 0, 32767, 32768, non-numeric; lengths at '
        'every limit +-1) x interchange level x namespace {iso, joliet, udf, rr} x {file, directory, hard link, symlink} on a fresh image: an '
        'independent predicate with exactly the rules of the statement (d-characters at levels 1-3, 8.3 at level 1, directory <= 8 / <= 207, '
        'version 1..32767, depth, Joliet 64, UDF 255-byte identifier field, 255-byte directory record) predicts refuse; observed: accepted '
        'illegal names, exceptions other than PyCdlibInvalidInput, failures only in write_fp; (b) histories that re-add a name that exists, '
        'existed, exists as the other kind or in another namespace through add_fp/add_directory/add_hard_link/add_symlink/add_eltorito: '
        'duplicates must be refused and the written image must not hold two entries with one identifier in one directory (independent '
        'decoders). one case = 40 candidates + 1 history; distinct = (level, namespace, kind, rule class) classes met; non-trivial = '
        'candidate within +-1 of a limit or containing a separator, or a history with a re-add')
ASSUMPTIONS = ['the predicate encodes only rules the statement lists; refusing a legal name is not a violation']
REQUIRED_COUNTERS = {'candidates_tried': 1000, 'readds_tried': 50}


def plan(tier):
    return 300 if tier == 'quick' else 8000


def cand_iso_file(rng, level):
    """Returns (identifier, expected_legal: True/False/None(unspecified), rule)."""
    x = rng.random()
    base = ''.join(rng.choice(D1) for _ in range(rng.choice([1, 7, 8, 9, 12, 30] + ([190] + list(range(200, 224)) if level == 4 or rng.random() < 0.1 else []))))
    ext = ''.join(rng.choice(D1) for _ in range(rng.choice([0, 1, 3, 4])))
    ver = rng.choice(['1', '1', '2', '32767', '32768', '0', '-1', '65536', 'x', '1x', ' 1', '+1', '', '1;1', '٣'])
    if x < 0.2:
        base = base[:-1] + rng.choice('abz é-+$ ')
    ident = base + ('.' + ext if ext or rng.random() < 0.5 else '')
    if ver != '' or rng.random() < 0.5:
        ident += ';' + ver
    return ident


def legal_iso_file(ident, level, xa=False):
    """True / False(rule) per the statement's rule list; None when the statement does not decide."""
    body, sep, ver = ident.rpartition(';')
    if not sep:
        body, ver = ident, None
    if ver is not None:
        if not (ver.isascii() and ver.isdigit()) or not (1 <= int(ver) <= 32767):
            return 'version'
    if ';' in body:
        return 'semicolon'
    name, dot, ext = body.rpartition('.')
    if not dot:
        name, ext = body, ''
    if not name and not ext:
        return 'empty'
    if level < 4:
        if set(name + ext) - set(D1):
            return 'characters'
        if level == 1 and (len(name) > 8 or len(ext) > 3):
            return 'length-8.3'
    n = len(ident.encode('utf-8'))
    if 33 + n + (1 - n % 2) + (14 if xa else 0) > 254:
        return 'record-fit'
    return True


def legal_iso_dir(ident, level, xa=False):
    if not ident:
        return 'empty'
    if level < 4:
        if set(ident) - set(D1):
            return 'characters'
        if level == 1 and len(ident) > 8:
            return 'length-8'
        if level in (2, 3) and len(ident) > 207:
            return 'length-207'
    n = len(ident.encode('utf-8'))
    if 33 + n + (1 - n % 2) + (14 if xa else 0) > 254:
        return 'record-fit'
    return True


def try_op(cfg, op, counters, what):
    """Fresh image, one edit, then write.  Returns (accepted, exc_class, late)."""
    env.reset(1)
    s = driver.Session(cfg, 1).new()
    pre = op.pop('_pre', [])
    for p in pre:
        s, _o = driver.advance(s, p)
    out = s.step(op)
    late = None
    if out.ok and what != 'bigdup':
        img, oc = s.write()
        if not oc.ok:
            late = oc.sig()
        elif what == 'reloc-same':
            # the written image must not hold one identifier twice in a directory
            dec = ecma119.decode(img.getvalue())
            dups = [d for k, d in dec.all_problems() if 'dup-ident' in k]
            if dups:
                late = 'image:dup-ident@%s' % dups[0][:80]
            elif dec.pvd is not None:
                for dpath, di in dec.pvd.dirs.items():
                    if dpath.count('/') != 1 or dpath == '/D0':
                        continue
                    for r in di.records:
                        if r.flags & 2 and r.ident not in (b'\x00', b'\x01'):
                            rule = legal_iso_dir(r.ident.decode('latin-1'), cfg.level, cfg.xa)
                            counters['derived_idents_checked'] = counters.get('derived_idents_checked', 0) + 1
                            if rule is not True and rule != 'record-fit':
                                late = 'image:derived-ident:%s@%s/%s' % (rule, dpath, r.ident[:20])
    s.close()
    counters['candidates_tried'] = counters.get('candidates_tried', 0) + 1
    return out, late


def check_candidates(rng, counters, classes, n=40):
    vio = []
    for _ in range(n):
        level = rng.choice([1, 2, 3, 4])
        kind = rng.choice(['iso-file', 'iso-file', 'iso-dir', 'joliet', 'udf', 'rr', 'depth', 'link', 'symlink', 'versions', 'reloc-same', 'reloc-rr-dup', 'special-dir-dup', 'reloc-name'])
        if rng.random() < 0.02:
            kind = 'bigdup'
        xa = rng.random() < 0.35
        cfg = Cfg(level=level, xa=xa)
        if kind == 'iso-file':
            ident = cand_iso_file(rng, level)
            exp = legal_iso_file(ident, level, xa)
            op = {'op': 'add_fp', 'cid': 1, 'length': 3, 'iso_path': '/' + ident}
        elif kind == 'versions':
            # several versions of one name, in any order, then one of them again
            stem = '/' + ''.join(rng.choice(D1) for _ in range(rng.choice([1, 5, 8]))) + rng.choice(['.', '.A', '.TXT'])
            vers = rng.sample([1, 2, 3, 7, 32767], rng.choice([2, 3]))
            pre = [{'op': 'add_fp', 'cid': 10 + k, 'length': 3, 'iso_path': '%s;%d' % (stem, v)} for k, v in enumerate(vers)]
            again = rng.choice(vers)
            ident = '%s;%d' % (stem, again)
            how = rng.choice(['add_fp', 'add_directory', 'add_hard_link'])
            if how == 'add_fp':
                op = {'op': 'add_fp', 'cid': 1, 'length': 3, 'iso_path': ident, '_pre': pre}
            elif how == 'add_directory':
                op = {'op': 'add_directory', 'iso_path': ident, '_pre': pre}
            else:
                op = {'op': 'add_hard_link', 'old': ('iso', pre[0]['iso_path']), 'new': ('iso', ident), '_pre': pre}
            exp = 'duplicate'
        elif kind == 'bigdup':
            # a name that exists as a file of more than one extent (> 4 GiB) added again
            level = rng.choice([3, 4])
            cfg = Cfg(level=level)
            ident = 'BIG.DAT;1' if level == 3 else 'big.dat'
            pre = [{'op': 'add_fp', 'cid': 900, 'length': rng.choice([0xfffff800 + 1, 0xfffff800 * 2, 0xfffff800 * 2 + 5]), 'iso_path': '/' + ident}]
            how = rng.choice(['add_fp', 'add_hard_link', 'add_directory'])
            if how == 'add_fp':
                op = {'op': 'add_fp', 'cid': 1, 'length': rng.choice([3, 5000]), 'iso_path': '/' + ident, '_pre': pre}
            elif how == 'add_directory':
                op = {'op': 'add_directory', 'iso_path': '/' + ident, '_pre': pre}
            else:
                pre = pre + [{'op': 'add_fp', 'cid': 2, 'length': 3, 'iso_path': '/OTHER.;1' if level == 3 else '/other'}]
                op = {'op': 'add_hard_link', 'old': ('iso', pre[-1]['iso_path']), 'new': ('iso', '/' + ident), '_pre': pre}
            exp = 'duplicate'
        elif kind == 'reloc-same':
            # several directories of one name at the relocation depth under different parents: their
            # identifiers in the relocation directory must stay distinct
            level = rng.choice([1, 2, 3])
            cfg = Cfg(level=level, rr=rng.choice(['1.09', '1.12']), xa=xa)
            pre = []
            p_ = ''
            for d in range(6):
                p_ += '/D%d' % d
                pre.append({'op': 'add_directory', 'iso_path': p_, 'rr_name': 'd%d' % d})
            n_ = rng.choice([2, 3, 4, 5])
            # (also names that are as long as a directory identifier of the level may be: the
            # identifiers the library derives for the relocation directory must still be legal)
            same = rng.choice(['SAME', 'SAMENAME', 'SAMENAM'] if level == 1 else ['SAME', 'SAMENAME', 'S' * 207, 'S' * 205])
            for k in range(n_):
                par = p_ + '/P%d' % k
                pre.append({'op': 'add_directory', 'iso_path': par, 'rr_name': 'p%d' % k})
                pre.append({'op': 'add_directory', 'iso_path': par + '/' + same, 'rr_name': 'same'})
            op = pre.pop()
            op['_pre'] = pre
            ident = op['iso_path']
            exp = True
        elif kind == 'special-dir-dup':
            # an existing name added again inside a directory that carries the name of the Rock Ridge
            # relocation directory: the user's own /RR_MOVED, or the relocation directory itself
            level = rng.choice([1, 2, 3])
            cfg = Cfg(level=level, rr=rng.choice(['1.09', '1.12']), xa=xa)
            pre = []
            if rng.random() < 0.5:
                pre.append({'op': 'add_directory', 'iso_path': '/RR_MOVED', 'rr_name': rng.choice(['rr_moved', 'mine'])})
            else:
                p_ = ''
                for d in range(8):
                    p_ += '/D%d' % d
                    pre.append({'op': 'add_directory', 'iso_path': p_, 'rr_name': 'd%d' % d})
            isdir = rng.random() < 0.3
            first = {'op': 'add_directory', 'iso_path': '/RR_MOVED/FOO', 'rr_name': 'foo'} if isdir else {'op': 'add_fp', 'cid': 5, 'length': 3, 'iso_path': '/RR_MOVED/FOO.;1', 'rr_name': 'foo'}
            pre.append(first)
            if rng.random() < 0.3:
                pre.append({'op': 'reopen'})
            ident = first['iso_path']
            how = rng.choice(['add_fp', 'add_directory', 'add_hard_link', 'add_symlink'])
            if how == 'add_fp':
                op = {'op': 'add_fp', 'cid': 1, 'length': 4, 'iso_path': ident, 'rr_name': 'foo2', '_pre': pre}
            elif how == 'add_directory':
                op = {'op': 'add_directory', 'iso_path': ident, 'rr_name': 'foo2', '_pre': pre}
            elif how == 'add_symlink':
                op = {'op': 'add_symlink', 'symlink_path': ident, 'rr_symlink_name': 'foo2', 'rr_path': 't', '_pre': pre}
            else:
                pre.append({'op': 'add_fp', 'cid': 2, 'length': 3, 'iso_path': '/SRC.;1', 'rr_name': 'src'})
                op = {'op': 'add_hard_link', 'old': ('iso', '/SRC.;1'), 'new': ('iso', ident), 'rr_name': 'foo2', '_pre': pre}
            exp = 'duplicate'
        elif kind == 'reloc-rr-dup':
            # the Rock Ridge name of a relocated directory is taken in its logical parent (where
            # its placeholder lives), not only in the relocation directory
            level = rng.choice([1, 2, 3])
            cfg = Cfg(level=level, rr=rng.choice(['1.09', '1.12']), xa=xa)
            pre = []
            p_ = ''
            for d in range(7):
                p_ += '/D%d' % d
                pre.append({'op': 'add_directory', 'iso_path': p_, 'rr_name': 'd%d' % d})
            pre.append({'op': 'add_directory', 'iso_path': p_ + '/DIR8', 'rr_name': 'dir8'})
            if rng.random() < 0.5:
                pre.append({'op': 'reopen'})
            how = rng.choice(['add_fp', 'add_symlink', 'add_directory', 'add_hard_link'])
            if how == 'add_fp':
                op = {'op': 'add_fp', 'cid': 1, 'length': 3, 'iso_path': p_ + '/OTHER.;1', 'rr_name': 'dir8', '_pre': pre}
            elif how == 'add_symlink':
                op = {'op': 'add_symlink', 'symlink_path': p_ + '/OTHER.;1', 'rr_symlink_name': 'dir8', 'rr_path': 't', '_pre': pre}
            elif how == 'add_directory':
                op = {'op': 'add_directory', 'iso_path': p_ + '/OTHER', 'rr_name': 'dir8', '_pre': pre}
            else:
                pre.append({'op': 'add_fp', 'cid': 2, 'length': 3, 'iso_path': '/SRC.;1', 'rr_name': 'src'})
                op = {'op': 'add_hard_link', 'old': ('iso', '/SRC.;1'), 'new': ('iso', p_ + '/OTHER.;1'), 'rr_name': 'dir8', '_pre': pre}
            ident = op.get('iso_path') or op.get('symlink_path') or op['new'][1]
            exp = 'duplicate-rr'
        elif kind == 'link':
            ident = cand_iso_file(rng, level)
            exp = legal_iso_file(ident, level, xa)
            op = {'op': 'add_hard_link', 'old': ('iso', '/OLD.;1' if level < 4 else '/old'), 'new': ('iso', '/' + ident),
                  '_pre': [{'op': 'add_fp', 'cid': 1, 'length': 3, 'iso_path': '/OLD.;1' if level < 4 else '/old'}]}
        elif kind == 'reloc-name':
            # the ISO9660 name chosen for the Rock Ridge relocation directory is a directory identifier
            level = rng.choice([1, 2, 3])
            cfg = Cfg(level=level, rr=rng.choice(['1.09', '1.12']), xa=xa)
            if rng.random() < 0.5:
                ident = cand_iso_file(rng, level)
            else:
                ident = ''.join(rng.choice(D1) for _ in range(rng.choice([1, 5, 8, 9, 20, 31, 32])))
                if rng.random() < 0.3:
                    ident = ident[:-1] + rng.choice('a.; é')
            exp = legal_iso_dir(ident, level, xa)
            op = {'op': 'set_relocated_name', 'name': ident, 'rr_name': 'moved'}
        elif kind == 'iso-dir':
            n_ = rng.choice([1, 7, 8, 9, 30, 31, 206, 207, 208, 220, 221, 222, 230, 250])
            ident = ''.join(rng.choice(D1) for _ in range(n_))
            if rng.random() < 0.2:
                ident = ident[:-1] + rng.choice('a.; é')
            exp = legal_iso_dir(ident, level, xa)
            op = {'op': 'add_directory', 'iso_path': '/' + ident}
        elif kind == 'joliet':
            cfg = Cfg(level=level, joliet=rng.choice([1, 2, 3]))
            units = rng.choice([1, 32, 63, 64, 65, 66, 100])
            ch = rng.choice(['a', 'é', '日', '\U0001F600'])
            per = 2 if ch == '\U0001F600' else 1
            ident = ch * (units // per) + 'x' * (units - per * (units // per))
            u16 = len(ident.encode('utf-16-be')) // 2
            exp = True if u16 <= 64 else 'joliet-64'
            if exp is True and len(ident.encode('utf-8')) > 64:
                exp = None   # legal but the library may refuse (over-refusal is not a violation)
            op = {'op': rng.choice(['add_fp', 'add_directory']), 'joliet_path': '/' + ident}
            if op['op'] == 'add_fp':
                op.update({'cid': 1, 'length': 3})
            if rng.random() < 0.12:
                # spellings of the root itself: a new entry there would have an empty name
                ident = rng.choice(['', '/', '.', './', 'sub/..', 'sub/../'])
                exp = 'empty'
                op = {'op': rng.choice(['add_fp', 'add_directory', 'add_directory', 'add_hard_link', 'add_symlink']), 'joliet_path': '/' + ident,
                      '_pre': [{'op': 'add_directory', 'joliet_path': '/sub'}]}
                if op['op'] == 'add_fp':
                    op.update({'cid': 1, 'length': 3})
                elif op['op'] == 'add_hard_link':
                    op = {'op': 'add_hard_link', 'old': ('joliet', '/old'), 'new': ('joliet', '/' + ident),
                          '_pre': op['_pre'] + [{'op': 'add_fp', 'cid': 1, 'length': 3, 'joliet_path': '/old'}]}
                elif op['op'] == 'add_symlink':
                    cfg = Cfg(level=level, joliet=3, udf=True)
                    op = {'op': 'add_symlink', 'udf_symlink_path': '/s', 'udf_target': 't', 'joliet_path': '/' + ident, '_pre': op['_pre']}
        elif kind == 'udf':
            cfg = Cfg(level=level, udf=True)
            n_ = rng.choice([1, 100, 126, 127, 128, 200, 253, 254, 255, 256, 300])
            ch = rng.choice(['a', 'é', '日', 'mix', 'mix'])
            if ch == 'mix':
                # mostly 8-bit characters and one that forces the 16-bit form of the whole name
                k_ = rng.randrange(n_)
                ident = 'a' * k_ + rng.choice('€日ő') + rng.choice('aé') * (n_ - k_ - 1)
            else:
                ident = ch * n_
            enc = len(ident.encode('latin-1')) if ch in ('a', 'é') else len(ident.encode('utf-16-be'))
            exp = True if enc + 1 <= 255 else 'udf-255'
            op = {'op': rng.choice(['add_fp', 'add_directory', 'add_symlink', 'add_hard_link']), 'udf_path': '/' + ident}
            if op['op'] == 'add_fp':
                op.update({'cid': 1, 'length': 3})
            elif op['op'] == 'add_symlink':
                op = {'op': 'add_symlink', 'udf_symlink_path': '/' + ident, 'udf_target': 'x'}
            elif op['op'] == 'add_hard_link':
                op = {'op': 'add_hard_link', 'old': ('udf', '/old'), 'new': ('udf', '/' + ident),
                      '_pre': [{'op': 'add_fp', 'cid': 1, 'length': 3, 'udf_path': '/old'}]}
            if rng.random() < 0.08:
                ident = rng.choice(['', '/', '.', 'sub/..'])
                exp = 'empty'
                op = {'op': rng.choice(['add_fp', 'add_directory']), 'udf_path': '/' + ident, '_pre': [{'op': 'add_directory', 'udf_path': '/sub'}]}
                if op['op'] == 'add_fp':
                    op.update({'cid': 1, 'length': 3})
        elif kind == 'rr':
            cfg = Cfg(level=level, rr=rng.choice(['1.09', '1.10', '1.12']))
            n_ = rng.choice([1, 200, 250, 255, 1000, 1900, 2000, 2100, 2500])
            ident = 'r' * n_
            exp = None if n_ >= 1900 else True
            if rng.random() < 0.15:
                ident = 'a/b'
                exp = 'rr-slash'
            isoname = '/F.;1' if level < 4 else '/f'
            op = {'op': rng.choice(['add_fp', 'add_directory']), 'iso_path': isoname, 'rr_name': ident}
            if op['op'] == 'add_fp':
                op.update({'cid': 1, 'length': 3})
            else:
                op['iso_path'] = '/D'
        elif kind == 'depth':
            rr = rng.choice([None, '1.09'])
            cfg = Cfg(level=level, rr=rr)
            depth = rng.choice([6, 7, 8, 9])
            pre = []
            p = ''
            for d in range(depth - 1):
                p += '/D%d' % d
                o = {'op': 'add_directory', 'iso_path': p}
                if rr:
                    o['rr_name'] = 'd%d' % d
                pre.append(o)
            what = rng.choice(['dir', 'file'])
            if what == 'dir':
                op = {'op': 'add_directory', 'iso_path': p + '/LAST', '_pre': pre}
                exp = True if (rr or level == 4 or depth <= 7) else 'depth'
            else:
                op = {'op': 'add_fp', 'cid': 1, 'length': 3, 'iso_path': p + '/LAST.;1', '_pre': pre}
                exp = True if (rr or level == 4 or depth <= 7) else 'depth'
            if rr:
                op['rr_name'] = 'last'
            # the pre-history itself may be refused at depth 8 without RR: then the candidate is moot
            if not rr and level < 4 and depth - 1 > 7:
                continue
            ident = op['iso_path']
        else:  # symlink names
            cfg = Cfg(level=level, rr='1.09')
            ident = cand_iso_file(rng, level)
            exp = legal_iso_file(ident, level)
            if exp is True and len(ident) > 150:
                exp = None   # room for the Rock Ridge entries in the record is not part of the listed rules
            op = {'op': 'add_symlink', 'symlink_path': '/' + ident, 'rr_symlink_name': 's', 'rr_path': 't'}
        out, late = try_op(cfg, dict(op), counters, kind)
        cls = 'legal' if exp is True else ('unspecified' if exp is None else exp)
        classes.add((level, kind, cls))
        rep = {'cfg': cfg.to_json(), 'op': driver.ops_to_json([op])[0]}
        if out.ok and late is not None and late.startswith('image:'):
            vio.append({'key': '%s:%s' % (late.split('@')[0], kind), 'detail': '%s: %s' % (ident[:60], late), 'replay': rep})
        elif out.ok and late is not None:
            vio.append({'key': 'late-failure:%s:%s' % (kind, late.split('@')[0]), 'detail': '%s accepted %r and write_fp failed: %s' % (op['op'], ident[:60], late), 'replay': rep})
        elif out.ok and exp not in (True, None):
            vio.append({'key': 'illegal-accepted:%s:%s' % (kind, exp), 'detail': 'level %d %s accepted %r (%d chars)' % (level, op['op'], ident[:60], len(ident)), 'replay': rep})
        elif not out.ok and out.exc_class != 'PyCdlibInvalidInput':
            vio.append({'key': 'wrong-exception:%s:%s@%s' % (kind, out.exc_class, out.exc_where), 'detail': '%s %r: %s' % (op['op'], ident[:60], out.exc_msg), 'replay': rep})
        elif not out.ok and exp is True:
            counters['legal_refused'] = counters.get('legal_refused', 0) + 1
    return vio


def readd_history(cs, counters):
    """History that re-adds names; returns (cfg, ops tried with expectations, violations)."""
    vio = []
    g = Gen(cs)
    rng = g.rng
    cfg = g.cfg(index=cs)
    h = common.History(cfg, cs, 'std', max_size=2000)
    h.extend(rng.choice([5, 12, 20]))
    if cs % 5 in (1, 3):
        # the names are re-added on an object that opened the mastered image (parsed records)
        if h.reopen(reuse=(cs % 5 == 3)):
            counters['readd_on_reopened'] = counters.get('readd_on_reopened', 0) + 1
    s = h.sess
    m = s.model
    tried = []
    for _ in range(rng.choice([3, 6, 10])):
        ns = rng.choice([n for n in ('iso', 'joliet', 'udf') if (n == 'iso' or (n == 'joliet' and cfg.joliet) or (n == 'udf' and cfg.udf))])
        existing = list(m.ns[ns])
        if not existing:
            continue
        target = rng.choice(existing)
        node = m.ns[ns][target]
        how = rng.choice(['add_fp', 'add_directory', 'add_hard_link', 'add_symlink', 'catalog'])
        key = '%s_path' % ns
        if ns == 'iso' and cfg.rr and node.rr_name and rng.random() < 0.4 and m.depth(target) % 8 != 0:
            # same Rock Ridge name under a fresh ISO9660 identifier
            parent = target.rsplit('/', 1)[0] or '/'
            how2 = rng.choice(['add_fp', 'add_directory', 'add_symlink'])
            if how2 == 'add_fp':
                op = {'op': 'add_fp', 'cid': h.gen.new_cid(), 'length': 1, 'iso_path': join(parent, h.gen.iso_file_name(cfg.level)), 'rr_name': node.rr_name}
            elif how2 == 'add_directory':
                op = {'op': 'add_directory', 'iso_path': join(parent, h.gen.iso_dir_name(cfg.level)), 'rr_name': node.rr_name}
                if m.depth(op['iso_path']) % 8 == 0:
                    continue
            else:
                op = {'op': 'add_symlink', 'symlink_path': join(parent, h.gen.iso_file_name(cfg.level)), 'rr_symlink_name': node.rr_name, 'rr_path': 't'}
            counters['readds_tried'] = counters.get('readds_tried', 0) + 1
            counters['rr_readds_tried'] = counters.get('rr_readds_tried', 0) + 1
            snapshot = driver.ops_to_json(list(s.accepted))
            out = s.step(op, apply_model=False)
            if out.ok:
                vio.append({'key': 'dup-accepted:ns=rr:via=%s' % how2, 'detail': '%s with the Rock Ridge name of existing %r was accepted' % (how2, target[:60]),
                            'replay': {'cfg': cfg.to_json(), 'ops': snapshot, 'op': driver.ops_to_json([op])[0], 'seed': cs}})
                break
            elif out.exc_class != 'PyCdlibInvalidInput':
                vio.append({'key': 'wrong-exception:readd:%s@%s' % (out.exc_class, out.exc_where), 'detail': out.exc_msg,
                            'replay': {'cfg': cfg.to_json(), 'ops': snapshot, 'op': driver.ops_to_json([op])[0], 'seed': cs}})
            continue
        if how == 'add_fp':
            op = {'op': 'add_fp', 'cid': h.gen.new_cid(), 'length': rng.choice([0, 5]), key: target}
            if ns == 'iso' and cfg.rr:
                op['rr_name'] = h.gen.rr_name(0)
        elif how == 'add_directory':
            op = {'op': 'add_directory', key: target}
            if ns == 'iso' and cfg.rr:
                op['rr_name'] = h.gen.rr_name(0)
        elif how == 'add_hard_link':
            olds = [(n2, p) for n2 in ('iso', 'joliet', 'udf') for p, nd in m.ns[n2].items() if nd.kind == 'file' and nd.cid is not None and nd.cid != 'catalog']
            if not olds:
                continue
            op = {'op': 'add_hard_link', 'old': rng.choice(olds), 'new': (ns, target)}
            if ns == 'iso' and cfg.rr:
                op['rr_name'] = h.gen.rr_name(0)
        elif how == 'add_symlink':
            if ns == 'iso' and cfg.rr:
                op = {'op': 'add_symlink', 'symlink_path': target, 'rr_symlink_name': h.gen.rr_name(0), 'rr_path': 't'}
            elif ns == 'udf':
                op = {'op': 'add_symlink', 'udf_symlink_path': target, 'udf_target': 't'}
            else:
                continue
        else:
            if m.boot is not None or ns != 'iso':
                continue
            files = [p for p, nd in m.ns['iso'].items() if nd.kind == 'file' and nd.cid is not None]
            if not files:
                continue
            op = {'op': 'add_eltorito', 'bootfile_path': rng.choice(files), 'bootcatfile': target}
            if cfg.rr:
                op['rr_bootcatname'] = 'boot.cat'
        counters['readds_tried'] = counters.get('readds_tried', 0) + 1
        snapshot = driver.ops_to_json(list(s.accepted))
        out = s.step(op, apply_model=False)
        vkind = 'file-vs-dir' if (node.kind == 'dir') != (how == 'add_directory') else ('dir' if node.kind == 'dir' else 'file')
        if out.ok:
            vio.append({'key': 'dup-accepted:ns=%s:via=%s' % (ns, how), 'detail': '%s of existing %s %r (%s) was accepted' % (how, ns, target[:60], node.kind),
                        'replay': {'cfg': cfg.to_json(), 'ops': snapshot, 'op': driver.ops_to_json([op])[0], 'seed': cs}})
            break
        elif out.exc_class != 'PyCdlibInvalidInput':
            vio.append({'key': 'wrong-exception:readd:%s@%s' % (out.exc_class, out.exc_where), 'detail': '%s of existing %r: %s' % (how, target[:60], out.exc_msg),
                        'replay': {'cfg': cfg.to_json(), 'ops': snapshot, 'op': driver.ops_to_json([op])[0], 'seed': cs}})
    # re-adding a name that *existed* must be possible and the image must hold no duplicates
    img, oc = s.write()
    if oc.ok:
        data = img.getvalue()
        dec = ecma119.decode(data)
        for k, d in dec.all_problems():
            if 'dup-ident' in k:
                vio.append({'key': 'image:%s' % k, 'detail': d, 'replay': {'cfg': cfg.to_json(), 'ops': driver.ops_to_json(list(s.accepted)), 'seed': cs}})
        if cfg.udf:
            u = iudf.decode(data)
            for k, d in u.problems:
                if k == 'fid:dup':
                    vio.append({'key': 'image:udf:fid:dup', 'detail': d, 'replay': {'cfg': cfg.to_json(), 'ops': driver.ops_to_json(list(s.accepted)), 'seed': cs}})
        if cfg.rr:
            from harness.indep import susp
            rr = susp.decode(data, dec)
            seen = {}
            for ip, e in rr.entries.items():
                if e.name is None:
                    continue
                parent = ip.rsplit('/', 1)[0]
                kk = (parent, e.name)
                if kk in seen and not (rr.entries[seen[kk]].cl or e.cl or e.re or rr.entries[seen[kk]].re):
                    counters['rr_name_dups_in_image'] = counters.get('rr_name_dups_in_image', 0) + 1
                seen[kk] = ip
    elif not vio:
        vio.append({'key': 'late-failure:history:%s' % oc.sig().split('@')[0], 'detail': oc.summary(), 'replay': {'cfg': cfg.to_json(), 'ops': driver.ops_to_json(list(s.accepted)), 'seed': cs}})
    s.close()
    return vio


def run_case(i, seed, tier):
    from harness.props import c01
    counters, classes = {}, set()
    cs = seed * 1000003 + i
    rng = random.Random(cs)
    vio = check_candidates(rng, counters, classes)
    vio += readd_history(cs, counters)
    vio = c01.dedup(vio)
    for v in vio:
        v['replay']['property'] = PROPERTY
    import hashlib
    return {'verdict': 'violated' if vio else 'held', 'violations': vio,
            'nontrivial': True, 'shape': hashlib.sha1(repr(sorted(classes)).encode()).hexdigest()[:12] + '/%d' % i,
            'sample': {'classes': sorted(map(list, classes))[:6]}, 'counters': counters}


def replay(doc):
    from harness.props import c01
    vio = []
    cfg = Cfg.from_json(doc['cfg'])
    if 'ops' in doc:
        ops = driver.ops_from_json(doc['ops'])
        s = driver.replay(cfg, ops, doc.get('seed', 0))
        if 'op' in doc:
            op = driver.ops_from_json([doc['op']])[0]
            out = s.step(op, apply_model=False)
            if out.ok:
                ns = 'rr' if (op.get('rr_name') or op.get('rr_symlink_name')) and doc.get('rr_dup') else op['new'][0] if 'new' in op else ('udf' if (op.get('udf_path') or op.get('udf_symlink_path')) else 'joliet' if op.get('joliet_path') else 'iso')
                how = 'catalog' if op['op'] == 'add_eltorito' else op['op']
                vio.append({'key': 'dup-accepted:ns=%s:via=%s' % (ns, how), 'detail': 'accepted'})
            elif out.exc_class != 'PyCdlibInvalidInput':
                vio.append({'key': 'wrong-exception:readd:%s@%s' % (out.exc_class, out.exc_where), 'detail': out.exc_msg})
        s.close()
    else:
        op = driver.ops_from_json([doc['op']])[0]
        out, late = try_op(cfg, dict(op), {}, '')
        if out.ok and late:
            vio.append({'key': 'late-failure', 'detail': late})
        elif not out.ok and out.exc_class != 'PyCdlibInvalidInput':
            vio.append({'key': 'wrong-exception', 'detail': out.summary()})
        elif out.ok:
            vio.append({'key': 'accepted', 'detail': 'candidate accepted'})
    return c01.dedup(vio)
