"""Output-side monitor: a file object handed to write_fp that records every
seek/write, keeps an interval map of written byte ranges (so "no byte written
twice" is decided from the write sequence itself) and keeps the bytes.

Large pattern-blob chunks (>= 64 KiB writes whose content is a blobs.span of a
known content id) are stored as references instead of bytes, so a multi-GiB
image costs a few MiB ("virtual disk").  The object supports len() and slicing
so the independent decoders can read it like bytes.
"""
import bisect
import io

from harness import blobs


class WriteTracer(io.RawIOBase):
    def __init__(self, virtual=False, keep_events=True):
        super().__init__()
        self.pos = 0
        self.size = 0
        self.virtual = virtual
        self.buf = bytearray()           # real bytes (non virtual)
        self.chunks = []                 # virtual: sorted [(start, end, kind, payload)]
        self.events = [] if keep_events else None   # ('w', offset, length) | ('s', offset)
        self.n_writes = 0
        self.n_seeks = 0
        self.bytes_written = 0
        self.ranges = []                 # sorted disjoint [start, end) written
        self.rewrites = []               # [(start, end)] overlapping an earlier write
        self.max_end = 0

    # -- file protocol ----------------------------------------------------------
    def writable(self):
        return True

    def seekable(self):
        return True

    def readable(self):
        return False

    def tell(self):
        return self.pos

    def seek(self, offset, whence=0):
        if whence == 0:
            self.pos = offset
        elif whence == 1:
            self.pos += offset
        else:
            self.pos = self.size + offset
        self.n_seeks += 1
        return self.pos

    def write(self, data):
        n = len(data)
        if n == 0:
            return 0
        start, end = self.pos, self.pos + n
        if self.events is not None and len(self.events) < 200000:
            self.events.append((start, n))
        self.n_writes += 1
        self.bytes_written += n
        self._note_range(start, end)
        if self.virtual:
            self._store_virtual(start, end, bytes(data))
        else:
            if start > len(self.buf):
                self.buf.extend(b'\x00' * (start - len(self.buf)))
            self.buf[start:end] = data
        self.pos = end
        if end > self.size:
            self.size = end
        return n

    # -- interval bookkeeping ---------------------------------------------------
    def _note_range(self, start, end):
        r = self.ranges
        i = bisect.bisect_right(r, (start, float('inf'))) - 1
        if i >= 0 and r[i][1] > start:
            ov = (start, min(end, r[i][1]))
            self.rewrites.append(ov)
        j = i + 1
        while j < len(r) and r[j][0] < end:
            self.rewrites.append((max(start, r[j][0]), min(end, r[j][1])))
            j += 1
        # merge
        lo = i if (i >= 0 and r[i][1] >= start) else i + 1
        hi = lo
        ns, ne = start, end
        while hi < len(r) and r[hi][0] <= ne:
            ns = min(ns, r[hi][0])
            ne = max(ne, r[hi][1])
            hi += 1
        r[lo:hi] = [(ns, ne)]

    # -- virtual storage --------------------------------------------------------
    def _store_virtual(self, start, end, data):
        payload = None
        if len(data) >= 4096:
            ident = blobs.identify(data[:16]) if len(data) >= 16 else None
            if ident is not None:
                cid, idx = ident
                if blobs.raw_span(cid, idx * blobs.UNIT, len(data)) == data:
                    payload = ('p', cid, idx * blobs.UNIT)
        if payload is None:
            payload = ('b', data)
        if not self.chunks or start >= self.chunks[-1][1]:
            # fast path: append (and coalesce consecutive pattern chunks)
            if self.chunks and payload[0] == 'p':
                ls, le, lp = self.chunks[-1]
                if le == start and lp[0] == 'p' and lp[1] == payload[1] and lp[2] + (le - ls) == payload[2]:
                    self.chunks[-1] = (ls, end, lp)
                    return
            self.chunks.append((start, end, payload))
            return
        # remove overlapped parts of existing chunks
        keep = []
        for (s, e, p) in self.chunks:
            if e <= start or s >= end:
                keep.append((s, e, p))
                continue
            if s < start:
                keep.append((s, start, self._slice_payload(p, 0, start - s)))
            if e > end:
                keep.append((end, e, self._slice_payload(p, end - s, e - s)))
        keep.append((start, end, payload))
        keep.sort(key=lambda c: c[0])
        self.chunks = keep

    @staticmethod
    def _slice_payload(p, a, b):
        if p[0] == 'b':
            return ('b', p[1][a:b])
        return ('p', p[1], p[2] + a)

    def _chunk_bytes(self, chunk, a, b):
        s, e, p = chunk
        if p[0] == 'b':
            return p[1][a - s:b - s]
        return blobs.raw_span(p[1], p[2] + (a - s), b - a)

    # -- bytes-like interface ---------------------------------------------------
    def __len__(self):
        return self.size

    def __getitem__(self, key):
        if isinstance(key, int):
            if key < 0:
                key += self.size
            return self[key:key + 1][0]
        start, stop, step = key.indices(self.size)
        if step != 1:
            raise ValueError('step not supported')
        if stop <= start:
            return b''
        if not self.virtual:
            out = bytes(self.buf[start:stop])
            if len(out) < stop - start:
                out += b'\x00' * (stop - start - len(out))
            return out
        keys = [c[0] for c in self.chunks]
        i = max(0, bisect.bisect_right(keys, start) - 1)
        if i < len(self.chunks) and self.chunks[i][0] <= start and self.chunks[i][1] >= stop:
            return bytes(self._chunk_bytes(self.chunks[i], start, stop))
        out = bytearray(stop - start)
        while i < len(self.chunks) and self.chunks[i][0] < stop:
            s, e, p = self.chunks[i]
            a, b = max(s, start), min(e, stop)
            if a < b:
                out[a - start:b - start] = self._chunk_bytes(self.chunks[i], a, b)
            i += 1
        return bytes(out)

    def getvalue(self):
        if self.virtual:
            raise ValueError('virtual disk has no flat value')
        out = bytes(self.buf)
        if len(out) < self.size:
            out += b'\x00' * (self.size - len(out))
        return out

    def holes(self):
        """Byte ranges below size that were never written."""
        out = []
        prev = 0
        for s, e in self.ranges:
            if s > prev:
                out.append((prev, s))
            prev = e
        if prev < self.size:
            out.append((prev, self.size))
        return out
