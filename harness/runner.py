"""Check runner: fans cases out to worker subprocesses, aggregates verdicts,
separates known findings from new violations, writes replays and evidence.

A property module (harness/props/cXX.py) provides:
  PROPERTY = 'C01'; LEVEL = 'exploration'; RULE = '...'
  def plan(tier) -> int                      number of cases
  def run_case(i, seed, tier) -> dict        {'verdict': 'held'|'violated'|'inconclusive',
                                               'violations': [{'key','detail','replay'}],
                                               'nontrivial': bool, 'shape': str,
                                               'sample': obj, 'counters': {..}}
  def replay(doc) -> list of violation dicts (for --replay and known-finding witnesses)
  ASSUMPTIONS = [...]
"""
import argparse
import importlib
import json
import os
import subprocess
import sys
import tempfile
import time

VERIF = os.path.dirname(os.path.dirname(os.path.abspath(__file__)))
REPO = os.environ.get('VERIF_REPO', '/repo')
PY = '/venv/bin/python'
GUARD = 'PYCDLIB_VERIF'


def worker_env():
    e = dict(os.environ)
    e['PYTHONPATH'] = REPO + os.pathsep + VERIF
    e['PYTHONHASHSEED'] = '0'
    e.setdefault('TZ', 'UTC')
    e[GUARD] = '1'
    e['PYTHONDONTWRITEBYTECODE'] = '1'
    return e


def load_known(prop):
    path = os.path.join(VERIF, 'known_findings.json')
    if not os.path.exists(path):
        return []
    with open(path) as f:
        doc = json.load(f)
    return [k for k in doc.get('findings', []) if k['property'] == prop]


def worker_main(prop, tier, seed, start, step, count):
    """Runs inside a worker subprocess: JSON line per case on stdout."""
    from harness import env
    env.install(seed)
    mod = importlib.import_module('harness.props.' + prop.lower())
    from harness import driver, monitors
    out = sys.stdout
    i = start
    while i < count:
        t0 = env.real_time()
        driver.COUNTERS.clear()
        guard = None if os.environ.get('VERIF_NO_HANG_GUARD') else monitors.GUARD
        if guard is not None:
            guard.arm()
        try:
            res = mod.run_case(i, seed, tier)
        except monitors.BudgetExceeded as e:
            # more than SEGMENT_BUDGET logical steps inside one library call: non-termination
            if guard is not None:
                guard.disarm()
            res = {'verdict': 'violated', 'nontrivial': True, 'shape': 'nonterminating',
                   'violations': [{'key': 'nonterminating:%s' % e, 'detail': 'a library call executed more than %d function entries + loop back-edges without returning (in %s); case %d seed %d tier %s' % (monitors.HangGuard.SEGMENT_BUDGET, e, i, seed, tier),
                                   'replay': {'property': prop, 'case': i, 'seed': seed, 'tier': tier, 'by_case': True}}]}
        except BaseException as e:  # harness error: inconclusive, never a violation
            import traceback
            res = {'verdict': 'inconclusive', 'violations': [], 'nontrivial': False, 'shape': 'harness-error',
                   'error': '%s: %s' % (type(e).__name__, e), 'traceback': traceback.format_exc()[-2000:]}
            if isinstance(e, KeyboardInterrupt):
                raise
        if guard is not None:
            guard.disarm()
        res['case'] = i
        res['wall'] = round(env.real_time() - t0, 4)
        c = dict(driver.COUNTERS)
        if guard is not None:
            c['max:steps_per_call_segment'] = guard.max_segment
            c['steps_total'] = guard.total
        c.update(res.get('counters', {}))
        res['counters'] = c
        out.write(json.dumps(res, default=repr) + '\n')
        out.flush()
        i += step


def run_workers(prop, tier, seed, count, jobs, timeout):
    procs = []
    env = worker_env()
    for w in range(jobs):
        cmd = [PY, '-c', 'import sys; sys.path.insert(0, %r); from harness import runner; runner.worker_main(%r, %r, %d, %d, %d, %d)'
               % (VERIF, prop, tier, seed, w, jobs, count)]
        # stderr goes to a temporary file, not a pipe: nobody drains a pipe while the run is in
        # progress, and a worker that fills it (warnings of a long run) would block for ever
        errf = tempfile.TemporaryFile(mode='w+', prefix='verif-worker-err-')
        p = subprocess.Popen(cmd, stdout=subprocess.PIPE, stderr=errf, env=env, cwd=VERIF, text=True)
        p.errf = errf
        procs.append(p)
    results = []
    errors = []
    deadline = time.monotonic() + timeout
    import selectors
    sel = selectors.DefaultSelector()
    for p in procs:
        sel.register(p.stdout, selectors.EVENT_READ, p)
    open_streams = len(procs)
    timed_out = False
    while open_streams:
        left = deadline - time.monotonic()
        if left <= 0:
            timed_out = True
            break
        for key, _ in sel.select(timeout=min(left, 1.0)):
            line = key.fileobj.readline()
            if not line:
                sel.unregister(key.fileobj)
                open_streams -= 1
                continue
            try:
                results.append(json.loads(line))
            except ValueError:
                errors.append('bad worker line: %r' % line[:200])
    for p in procs:
        if p.poll() is None:
            if timed_out:
                p.kill()
            else:
                try:
                    p.wait(timeout=30)
                except subprocess.TimeoutExpired:
                    p.kill()
        try:
            p.errf.seek(0)
            err = p.errf.read()[-20000:]
            p.errf.close()
        except Exception:
            err = ''
        if p.returncode not in (0, None) and not timed_out:
            errors.append('worker exit %s: %s' % (p.returncode, err[-1500:]))
        elif err.strip() and 'Traceback' in err:
            errors.append('worker stderr: %s' % err[-1500:])
    return results, errors, timed_out


def main(argv=None):
    try:
        import faulthandler, signal
        faulthandler.register(signal.SIGUSR1, all_threads=True)   # kill -USR1 <pid>: where is the runner?
    except Exception:
        pass
    ap = argparse.ArgumentParser()
    ap.add_argument('prop')
    ap.add_argument('--tier', default=os.environ.get('VERIF_TIER', 'quick'))
    ap.add_argument('--seed', type=int, default=int(os.environ.get('VERIF_SEED', '0')))
    ap.add_argument('--jobs', type=int, default=int(os.environ.get('VERIF_JOBS', '0')) or min(16, os.cpu_count() or 4))
    ap.add_argument('--cases', type=int, default=0)
    ap.add_argument('--replay', default=None)
    ap.add_argument('--timeout', type=int, default=0)
    args = ap.parse_args(argv)
    prop = args.prop.upper()
    tier = args.tier if args.tier in ('quick', 'thorough') else 'quick'
    sys.path.insert(0, VERIF)
    os.environ.setdefault('PYTHONHASHSEED', '0')
    os.environ[GUARD] = '1'
    if REPO not in sys.path:
        sys.path.insert(0, REPO)
    from harness import env
    env.install(args.seed)
    mod = importlib.import_module('harness.props.' + prop.lower())
    known = load_known(prop)
    known_keys = {k['key']: k for k in known if k.get('status') == 'known'}

    if args.replay:
        with open(args.replay) as f:
            doc = json.load(f)
        if doc.get('by_case'):
            # witness identified by its (deterministic) case number: re-run that case under the hang guard
            from harness import monitors
            monitors.GUARD.arm()
            try:
                vio = mod.run_case(doc['case'], doc['seed'], doc['tier']).get('violations', [])
            except monitors.BudgetExceeded as e:
                vio = [{'key': 'nonterminating:%s' % e, 'detail': 'library call did not return within the step budget'}]
            finally:
                monitors.GUARD.disarm()
        else:
            vio = mod.replay(doc)
        new = [v for v in vio if v['key'] not in known_keys]
        for v in vio:
            print('%s %s: %s' % ('KNOWN' if v['key'] in known_keys else 'VIOLATED', v['key'], v.get('detail', '')[:300]))
        if new:
            print('VIOLATION property=%s replay=%s' % (prop, args.replay))
            return 1
        print('replay: property held on this witness' if not vio else 'replay: only known findings')
        return 0

    t0 = time.monotonic()
    count = args.cases or mod.plan(tier)
    timeout = args.timeout or (900 if tier == 'quick' else 6 * 3600)

    # 1. known-finding witnesses: replay each listed finding in-process
    known_hit = {}
    for k in known:
        if k.get('status') != 'known':
            continue
        try:
            vio = mod.replay(k['witness'])
        except Exception as e:  # a witness that cannot run is reported, not fatal
            print('NOTE: witness of known finding %s could not be replayed: %s: %s' % (k['key'], type(e).__name__, e))
            continue
        keys = [v['key'] for v in vio]
        if k['key'] in keys:
            print('KNOWN-FINDING: property=%s %s [%s]' % (prop, k['what_fails'], k['key']))
            known_hit[k['key']] = known_hit.get(k['key'], 0)
        else:
            print('NOTE: known finding %s not reproduced by its witness (observed: %s)' % (k['key'], keys))

    # 2. the workload (for modules that opt in: plus the images the repository's own tests master)
    suite_info = None
    spool = None
    if tier in getattr(mod, 'SUITE_TIERS', ()) and not args.cases:
        from harness import suite
        spool, suite_info = suite.prepare(args.jobs, twin=bool(getattr(mod, 'SUITE_TWIN', False)))
        os.environ['VERIF_SUITE_SPOOL'] = spool
        count += suite.NSLOTS
    try:
        results, errors, timed_out = run_workers(prop, tier, args.seed, count, args.jobs, timeout)
    finally:
        if spool:
            from harness import suite
            suite.cleanup(spool)

    violations = {}
    shapes = set()
    nontrivial_shapes = set()
    counters = {}
    samples = []
    inconclusive = 0
    harness_errors = []
    for r in sorted(results, key=lambda r: r['case']):
        for k, v in r.get('counters', {}).items():
            if isinstance(v, (int, float)):
                if k.startswith('max:'):
                    counters[k] = max(counters.get(k, 0), v)
                else:
                    counters[k] = counters.get(k, 0) + v
        if r['verdict'] == 'inconclusive':
            inconclusive += 1
            if r.get('error'):
                harness_errors.append((r['case'], r['error'], r.get('traceback', '')))
        shapes.add(r.get('shape'))
        if r.get('nontrivial'):
            nontrivial_shapes.add(r.get('shape'))
        if r.get('sample') is not None and len(samples) < 5 and r.get('nontrivial'):
            samples.append(r['sample'])
        for v in r.get('violations', []):
            violations.setdefault(v['key'], []).append((r['case'], v))
    if not samples:
        samples = [r['sample'] for r in results if r.get('sample') is not None][:3]

    new_keys = [k for k in violations if k not in known_keys]
    exit_code = 0
    replay_dir = os.path.join(VERIF, 'replays', prop)
    for k in sorted(violations):
        case, v = violations[k][0]
        if k in known_keys:
            known_hit[k] = known_hit.get(k, 0) + len(violations[k])
            continue
        os.makedirs(replay_dir, exist_ok=True)
        safe = ''.join(ch if ch.isalnum() or ch in '-_.' else '_' for ch in k)[:80]
        path = os.path.join(replay_dir, '%d-%d-%s.json' % (args.seed, case, safe))
        doc = v.get('replay') or {}
        doc.setdefault('property', prop)
        doc['key'] = k
        doc['detail'] = v.get('detail')
        with open(path, 'w') as f:
            json.dump(doc, f, indent=1, default=repr)
        print('violated: %s (%d cases, first case %d): %s' % (k, len(violations[k]), case, (v.get('detail') or '')[:400]))
        print('VIOLATION property=%s replay=%s' % (prop, path))
        exit_code = 1

    evaluations = len(results)
    min_eval = getattr(mod, 'MIN_EVALUATIONS', {}).get(tier, 1)
    reach_ok = True
    reach_msgs = []
    for name, minimum in getattr(mod, 'REQUIRED_COUNTERS', {}).items():
        if counters.get(name, 0) < minimum:
            reach_ok = False
            reach_msgs.append('%s=%s < %s' % (name, counters.get(name, 0), minimum))
    if suite_info is not None and counters.get('suite_images_checked', 0) < 50:
        reach_ok = False
        reach_msgs.append('suite_images_checked=%s < 50 (%s)' % (counters.get('suite_images_checked', 0), suite_info.get('suite_run')))
    verdict_inconclusive = False
    if exit_code == 0:
        if errors or harness_errors or timed_out or evaluations < min_eval or not reach_ok:
            verdict_inconclusive = True

    for case, err, tb in harness_errors[:5]:
        print('INCONCLUSIVE case %d: harness error %s\n%s' % (case, err, tb))
    for e in errors[:5]:
        print('WORKER-ERROR: %s' % e)
    for m in reach_msgs:
        print('REACH: deciding monitor/anchored code not reached often enough: %s' % m)

    evidence = {
        'property_id': prop,
        'tier': tier,
        'seed': args.seed,
        'level': mod.LEVEL,
        'coverage': {
            'evaluations': evaluations,
            'distinct_nontrivial': len(nontrivial_shapes),
            'rule': mod.RULE,
            'samples': samples or ['(no case produced a sample)'],
            'planned_cases': count,
            'distinct_shapes': len(shapes),
            'inconclusive': inconclusive,
            'timed_out': timed_out,
            'counters': {k: counters[k] for k in sorted(counters)},
            'known_findings_hit': known_hit,
            'new_violation_keys': sorted(new_keys),
            'jobs': args.jobs,
        },
        'assumptions': getattr(mod, 'ASSUMPTIONS', []),
        'wall_s': round(time.monotonic() - t0, 2),
        'violations': len(new_keys),
    }
    if suite_info is not None:
        evidence['coverage']['repository_suite_workload'] = suite_info
    if hasattr(mod, 'extra_evidence'):
        evidence['coverage'].update(mod.extra_evidence(results))
    os.makedirs(os.path.join(VERIF, 'evidence'), exist_ok=True)
    with open(os.path.join(VERIF, 'evidence', prop + '.json'), 'w') as f:
        json.dump(evidence, f, indent=1, default=repr)

    print('%s %s: %d cases, %d distinct non-trivial shapes, %d inconclusive, %d known-finding hits, %d new violation keys, %.1fs'
          % (prop, tier, evaluations, len(nontrivial_shapes), inconclusive, sum(known_hit.values()), len(new_keys), time.monotonic() - t0))
    if exit_code == 0 and verdict_inconclusive:
        print('INCONCLUSIVE property=%s (see messages above)' % prop)
        return 2
    return exit_code


if __name__ == '__main__':
    sys.exit(main())
