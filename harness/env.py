"""Determinism shim and interpreter set-up shared by every worker.

Installed *before* pycdlib is imported: pycdlib's only sources of
nondeterminism are time.time(), random.getrandbits()/random.randint()
(UDF volume-set id, MBR id) and uuid.uuid4() (GPT GUIDs).  With those pinned,
two executions of the same history give byte-identical images, which is what
makes twin-run oracles (C05, C06, C11, C12, C14, C17) exact.
"""
import os
import random
import sys
import time
import uuid

REPO = os.environ.get('VERIF_REPO', '/repo')

_real_time = time.time


class VirtualClock:
    def __init__(self, start=1600000000.0):
        self.now = float(start)
        self.tick = 0.0      # seconds the clock advances after every reading (0: frozen)

    def time(self):
        t = self.now
        self.now += self.tick
        return t

    def advance(self, seconds):
        self.now += seconds


CLOCK = VirtualClock()
_uuid_counter = [0]


def _uuid4():
    _uuid_counter[0] += 1
    return uuid.UUID(int=(0x5eed0000000040008000000000000000 + _uuid_counter[0]) & ((1 << 128) - 1))


def install(seed=0, clock_start=1600000000.0):
    """Install the shim; idempotent.  Must be called before any pycdlib use."""
    if REPO not in sys.path:
        sys.path.insert(0, REPO)
    os.environ.setdefault('TZ', 'UTC')
    time.tzset()
    CLOCK.now = float(clock_start)
    time.time = CLOCK.time
    uuid.uuid4 = _uuid4
    reset(seed, clock_start)


def reset(seed=0, clock_start=None):
    """Reset all pinned sources so that a twin execution sees the same values."""
    random.seed(seed)
    _uuid_counter[0] = 0
    CLOCK.tick = 0.0
    if clock_start is not None:
        CLOCK.now = float(clock_start)


def real_time():
    return _real_time()
