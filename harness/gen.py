"""Workload generator: configurations, names and state-dependent operations.

Gen draws operations against the *model's* current state so that almost every
operation is one the API should accept; hostile / refused operations are the
business of the C13/C14 recipes, not of this generator.
"""
import random

from harness import blobs
from harness.model import Cfg, ALL_CFGS, parent_of, join

D1 = 'ABCDEFGHIJKLMNOPQRSTUVWXYZ0123456789_'
B36 = '0123456789ABCDEFGHIJKLMNOPQRSTUVWXYZ'

SIZES = [0, 0, 1, 2, 15, 16, 17, 511, 2047, 2048, 2049, 4095, 4096, 4097, 6000, 10000, 65536, 70001]

UNI_POOLS = [
    'abcdefghijklmnopqrstuvwxyzABCDEFGHIJKLMNOPQRSTUVWXYZ0123456789-_. ',
    'àéîõüçñßøåÆþ',
    'αβγδεζηθλμπσω',
    'абвгдежзийклмн',
    '日本語漢字中文한국어',
    '\U0001F600\U0001F4BF\U00010348\U0002070E',
]


def b36(n, width=0):
    s = ''
    while n:
        s = B36[n % 36] + s
        n //= 36
    return (s or '0').rjust(width, '0')


class Gen:
    def __init__(self, seed, profile='std'):
        self.rng = random.Random(seed)
        self.profile = profile
        self.uniq = 0
        self.next_cid = 1
        self.max_size = 70001
        self.max_depth = 6
        # names that were removed earlier in this history: re-adding a name that
        # existed (stale lookup caches, freed continuation gaps) is a workload class
        self.removed = {'iso': [], 'joliet': [], 'udf': []}
        self.removed_rr_lens = []

    # ---- configuration ------------------------------------------------------
    def cfg(self, index=None, require=None):
        """index: stratified choice (case number) so that every combination
        appears; require: predicate on Cfg."""
        cfgs = ALL_CFGS if require is None else [c for c in ALL_CFGS if require(c)]
        if index is not None:
            # a fixed pseudo-random permutation, then round-robin
            order = list(range(len(cfgs)))
            random.Random(12345).shuffle(order)
            return cfgs[order[index % len(cfgs)]]
        return self.rng.choice(cfgs)

    def vd_extras(self, joliet=False, xa=False):
        """Keyword arguments for the volume-descriptor fields of PyCdlib.new(): identifiers at and
        below their field widths, set size / sequence number, expiry date, application use."""
        r = self.rng
        A = 'ABCDEFGHIJKLMNOPQRSTUVWXYZ0123456789_ !%&()*+,-./:;<=>?'
        D = 'ABCDEFGHIJKLMNOPQRSTUVWXYZ0123456789_'
        def text(alpha, width):
            n = r.choice([0, 1, width // 2, width - 1, width])
            return ''.join(r.choice(alpha) for _ in range(n)).strip() if n else ''
        ex = {}
        for name, alpha, width in (('sys_ident', A, 32), ('vol_ident', D, 32), ('vol_set_ident', D, 128), ('pub_ident_str', A, 128),
                                   ('preparer_ident_str', A, 128), ('app_ident_str', A, 128), ('copyright_file', D, 37),
                                   ('abstract_file', D, 37), ('bibli_file', D, 37)):
            if joliet:
                width //= 2      # the Joliet descriptor stores the same strings in UCS-2
            if r.random() < 0.5:
                v = text(alpha, width)
                if name.endswith('_file') and v:
                    v = (v[:width - 4] + ';1' if r.random() < 0.5 else v)[:width]
                if v:
                    ex[name] = v
        if r.random() < 0.5:
            ss = r.choice([1, 2, 3, 255, 256, 65535])
            ex['set_size'] = ss
            ex['seqnum'] = r.choice([1, ss, max(1, ss - 1)])
        if r.random() < 0.4:
            ex['vol_expire_date'] = float(r.choice([0, 1, 86400 * 365, 1600000000, 2000000000, 4102444800]))
        if r.random() < 0.4:
            n = r.choice([1, 100, 139, 140]) if xa else r.choice([1, 100, 140, 141, 149, 150, 511, 512])
            ex['app_use'] = ''.join(r.choice(A) for _ in range(n))
        return ex

    # ---- names --------------------------------------------------------------
    def _u(self):
        self.uniq += 1
        return self.uniq

    def iso_file_name(self, level):
        r = self.rng
        u = b36(self._u())
        if level == 1:
            pre = ''.join(r.choice(D1) for _ in range(r.randint(0, 8 - len(u))))
            base = pre + u
            ext = ''.join(r.choice(D1) for _ in range(r.choice([0, 0, 1, 3, 3])))
        elif level in (2, 3):
            total = r.choice([1, 5, 8, 9, 12, 20, 29, 30]) if r.random() < 0.7 else r.randint(1, 30)
            extlen = r.choice([0, 0, 1, 3, 3, 5])
            baselen = max(len(u), total - extlen)
            base = ''.join(r.choice(D1) for _ in range(baselen - len(u))) + u
            ext = ''.join(r.choice(D1) for _ in range(extlen))
        else:
            pool = 'abcdefghijklmnopqrstuvwxyzABCDEFGHIJKLMNOPQRSTUVWXYZ0123456789-_ +=~!@#$%^&()[]{}'
            n = r.choice([1, 4, 12, 40, 100, 180]) if r.random() < 0.5 else r.randint(1, 60)
            base = ''.join(r.choice(pool) for _ in range(n)) + u
            if r.random() < 0.15:
                base += r.choice('éñ日')
            ext = ''.join(r.choice(pool) for _ in range(r.choice([0, 0, 3, 8])))
        name = base + ('.' + ext if ext or r.random() < 0.5 else '')
        if level == 4 and r.random() < 0.06:
            # identifiers so long that hardly anything else fits into the directory record (with
            # Rock Ridge only the pointer to the continuation area stays in it)
            total = r.choice([183, 186, 187, 188, 189, 190, 192, 193, 194, 200, 205, 207])
            name = (name + 'q' * total)[:total - len(u) - 1] + '_' + u
            return name if r.random() < 0.6 else name[:-2] + ';1'
        if level == 4 and r.random() < 0.3:
            return name
        ver = 1 if r.random() < 0.85 else r.choice([2, 9, 10, 99, 32767])
        return '%s;%d' % (name, ver)

    def iso_dir_name(self, level):
        r = self.rng
        u = b36(self._u())
        if level == 1:
            return ''.join(r.choice(D1) for _ in range(r.randint(0, 8 - len(u)))) + u
        if level in (2, 3):
            n = r.choice([1, 8, 9, 31, 60]) if r.random() < 0.6 else r.randint(1, 31)
            n = max(n, len(u))
            return ''.join(r.choice(D1) for _ in range(n - len(u))) + u
        pool = 'abcdefghijklmnopqrstuvwxyzABCDEFGHIJKLMNOPQRSTUVWXYZ0123456789-_ .'
        n = r.choice([1, 8, 40, 120]) if r.random() < 0.5 else r.randint(1, 40)
        return ''.join(r.choice(pool) for _ in range(n)).strip('. ') + 'd' + u

    def rr_name(self, long_bias=0.15):
        r = self.rng
        u = b36(self._u()).lower()
        x = r.random()
        if self.removed_rr_lens and r.random() < 0.25:
            n = max(1, r.choice(self.removed_rr_lens) + r.choice([-1, 0, 0, 1, 1, 2]))
        elif x < long_bias:
            n = r.choice([90, 150, 199, 200, 201, 230, 248, 249, 250, 251, 252, 255, 256, 260, 300, 500])
        elif x < long_bias + 0.1:
            n = r.randint(60, 260)
        else:
            n = r.randint(1, 30)
        n = max(n, len(u) + 1)
        pool = UNI_POOLS[0] if r.random() < 0.85 else UNI_POOLS[0] + r.choice(UNI_POOLS[1:5])
        s = ''
        while len((s + u).encode('utf-8')) < n:
            s += r.choice(pool)
        name = (s + u)
        if name in ('.', '..'):
            name = 'x' + name
        return name

    def uni_name(self, maxbytes=64, kind='joliet'):
        r = self.rng
        u = b36(self._u()).lower()
        n = r.choice([1, 8, 30, 60, 63, 64]) if r.random() < 0.5 else r.randint(1, 40)
        n = min(max(n, len(u) + 1), maxbytes)
        pools = [UNI_POOLS[0]] * 4 + UNI_POOLS[1:]
        if kind == 'joliet':
            pool = r.choice(pools).replace('/', '')
        else:
            pool = r.choice(pools)
        s = ''
        while True:
            c = r.choice(pool)
            if len((s + c + u).encode('utf-8')) > n:
                break
            s += c
        name = (s + u).strip(' ')
        if name in ('.', '..') or not name:
            name = 'x' + u
        return name

    def udf_name(self):
        r = self.rng
        tw = getattr(self, '_udf_twin', None)
        if tw is not None and r.random() < 0.5:
            # the 8-bit name with the bytes of a 16-bit name handed out earlier (two different names)
            self._udf_twin = None
            return tw
        if r.random() < 0.04:
            n = r.choice([1, 2, 5])
            raw = bytes(b for _ in range(n) for b in (r.randint(0x4e, 0x7a), r.randint(0x30, 0x7a)))
            name = raw.decode('utf-16-be')
            self._udf_twin = raw.decode('latin-1')
            return name
        if r.random() < 0.1:
            return self.uni_name(maxbytes=r.choice([100, 120, 126]), kind='udf')
        return self.uni_name(maxbytes=64, kind='udf')

    def size(self):
        r = self.rng
        if r.random() < 0.6:
            return r.choice([s for s in SIZES if s <= self.max_size])
        return r.randint(0, min(self.max_size, 9000))

    def new_cid(self):
        c = self.next_cid
        self.next_cid += 1
        return c

    # ---- operations ---------------------------------------------------------
    def pick_dir(self, model, ns, max_depth=None):
        dirs = model.dirs(ns)
        if max_depth is not None:
            dirs = [d for d in dirs if model.depth(d) <= max_depth]
        # bias to the root and to recently created directories
        r = self.rng
        if r.random() < 0.35 or len(dirs) == 1:
            return '/'
        return r.choice(dirs)

    def note_removed(self, before, after_model):
        """before: {ns: {path: (kind, rr_name)}} snapshot taken before an accepted removal."""
        for ns in ('iso', 'joliet', 'udf'):
            for p, (kind, rrn) in before[ns].items():
                if p not in after_model.ns[ns]:
                    self.removed[ns].append((p, kind))
                    if rrn:
                        self.removed_rr_lens.append(len(rrn.encode('utf-8')))
            del self.removed[ns][:-30]
        del self.removed_rr_lens[:-30]

    def reuse(self, model, ns, kind):
        """A previously removed path of this namespace whose parent still exists and that is free."""
        c = [p for p, k in self.removed[ns] if not model.exists(ns, p) and model.is_dir(ns, p.rsplit('/', 1)[0] or '/')
             and (ns != 'iso' or model.depth(p) <= self.max_depth + (1 if kind == 'file' else 0))]
        if not c or self.rng.random() > 0.3:
            return None
        return self.rng.choice(c)

    def op_add_fp(self, model, length=None, spread=None):
        """A file in the iso namespace and, by coin flips, in the others."""
        cfg = model.cfg
        r = self.rng
        op = {'op': 'add_fp', 'cid': self.new_cid(), 'length': self.size() if length is None else length}
        want_iso = r.random() < 0.9
        want_j = bool(cfg.joliet) and r.random() < 0.7
        want_u = cfg.udf and r.random() < 0.7
        if spread == 'all':
            want_iso, want_j, want_u = True, bool(cfg.joliet), cfg.udf
        if not (want_iso or want_j or want_u):
            want_iso = True
        if want_iso:
            parent = self.pick_dir(model, 'iso', self.max_depth)
            op['iso_path'] = self.reuse(model, 'iso', 'file') or join(parent, self.iso_file_name(cfg.level))
            if cfg.rr:
                op['rr_name'] = self.rr_name()
                if r.random() < 0.5:
                    op['file_mode'] = r.choice([0o100444, 0o100644, 0o100755, 0o100600])
        if want_j:
            op['joliet_path'] = self.reuse(model, 'joliet', 'file') or join(self.pick_dir(model, 'joliet'), self.uni_name())
        if want_u:
            op['udf_path'] = self.reuse(model, 'udf', 'file') or join(self.pick_dir(model, 'udf'), self.udf_name())
        return op

    def op_add_directory(self, model, spread=None):
        cfg = model.cfg
        r = self.rng
        op = {'op': 'add_directory'}
        want_iso = r.random() < 0.85
        want_j = bool(cfg.joliet) and r.random() < 0.7
        want_u = cfg.udf and r.random() < 0.7
        if spread == 'all':
            want_iso, want_j, want_u = True, bool(cfg.joliet), cfg.udf
        if not (want_iso or want_j or want_u):
            want_iso = True
        if want_iso:
            parent = self.pick_dir(model, 'iso', self.max_depth - 1)
            if r.random() < 0.4:
                # prefer deepening
                deep = [d for d in model.dirs('iso') if model.depth(d) <= self.max_depth - 1]
                parent = max(deep, key=lambda d: (model.depth(d), d)) if r.random() < 0.5 else r.choice(deep)
            op['iso_path'] = self.reuse(model, 'iso', 'dir') or join(parent, self.iso_dir_name(cfg.level))
            if cfg.rr:
                op['rr_name'] = self.rr_name(long_bias=0.08)
                if r.random() < 0.5:
                    op['file_mode'] = r.choice([0o040555, 0o040755, 0o040700])
        if want_j:
            op['joliet_path'] = self.reuse(model, 'joliet', 'dir') or join(self.pick_dir(model, 'joliet'), self.uni_name())
        if want_u:
            op['udf_path'] = self.reuse(model, 'udf', 'dir') or join(self.pick_dir(model, 'udf'), self.udf_name())
        return op

    def _removable_files(self, model, ns):
        out = []
        for p, n in model.ns[ns].items():
            if n.kind == 'dir':
                continue
            if n.kind == 'file' and n.cid == 'catalog':
                continue
            if n.kind == 'file' and n.cid is not None and model.boot_refs(n.cid):
                continue
            out.append(p)
        return out

    def op_rm_file(self, model):
        r = self.rng
        nss = [ns for ns in ('iso', 'joliet', 'udf') if self._removable_files(model, ns)]
        if not nss:
            return None
        ns = r.choice(nss)
        path = r.choice(self._removable_files(model, ns))
        node = model.ns[ns][path]
        if ns == 'udf' and node.kind == 'symlink':
            # documented: a UDF symlink is removed with rm_hard_link
            return {'op': 'rm_hard_link', 'udf_path': path}
        op = {'op': 'rm_file', '%s_path' % ns: path}
        return op

    def op_rm_hard_link(self, model):
        r = self.rng
        cands = []
        for ns in ('iso', 'joliet', 'udf'):
            for p, n in model.ns[ns].items():
                if n.kind == 'file' and n.cid is not None:
                    if n.cid != 'catalog' and model.boot_refs(n.cid) and len(model.names_of(n.cid)) <= 1:
                        # the last name of a boot image: a fully hidden image keeps only its El
                        # Torito load size across a reopen (documented), so the generic generator
                        # leaves that to the boot profile, which knows when it is lossless
                        continue
                    if n.cid == 'catalog' and len(model.names_of('catalog')) <= 1:
                        continue
                    cands.append((ns, p))
                elif n.kind == 'symlink' and ns == 'udf':
                    cands.append((ns, p))
        if not cands:
            return None
        ns, p = r.choice(cands)
        return {'op': 'rm_hard_link', '%s_path' % ns: p}

    def op_add_hard_link(self, model):
        cfg = model.cfg
        r = self.rng
        olds = []
        for ns in ('iso', 'joliet', 'udf'):
            for p, n in model.ns[ns].items():
                if n.kind == 'file' and n.cid is not None and n.cid != 'catalog':
                    olds.append((ns, p))
        if not olds:
            return None
        old = r.choice(olds)
        nss = ['iso'] + (['joliet'] if cfg.joliet else []) + (['udf'] if cfg.udf else [])
        nns = r.choice(nss)
        op = {'op': 'add_hard_link', 'old': old}
        if old[0] == nns and nns in ('iso', 'joliet') and r.random() < 0.3:
            # the same identifier in another directory: two records of one content that differ in
            # nothing but their parent
            base = old[1].rsplit('/', 1)[1]
            here = old[1].rsplit('/', 1)[0] or '/'
            others = [d for d in model.dirs(nns) if d != here and join(d, base) not in model.ns[nns]
                      and (nns != 'iso' or model.depth(d) < self.max_depth)]
            if others:
                op['new'] = (nns, join(r.choice(others), base))
                if nns == 'iso' and cfg.rr:
                    node = model.ns['iso'][old[1]]
                    op['rr_name'] = node.rr_name if node.rr_name and r.random() < 0.7 else self.rr_name()
                return op
        if nns == 'iso':
            op['new'] = ('iso', join(self.pick_dir(model, 'iso', self.max_depth), self.iso_file_name(cfg.level)))
            if cfg.rr:
                op['rr_name'] = self.rr_name()
        elif nns == 'joliet':
            op['new'] = ('joliet', join(self.pick_dir(model, 'joliet'), self.uni_name()))
        else:
            op['new'] = ('udf', join(self.pick_dir(model, 'udf'), self.udf_name()))
        return op

    def op_rm_directory(self, model):
        r = self.rng
        cands = []
        for ns in ('iso', 'joliet', 'udf'):
            for p, n in model.ns[ns].items():
                if n.kind == 'dir' and not model.children(ns, p):
                    cands.append((ns, p))
        if not cands:
            return None
        ns, p = r.choice(cands)
        op = {'op': 'rm_directory', '%s_path' % ns: p}
        x = r.random()
        if x < 0.3:
            # one call for directories of several namespaces (they need not be the "same" directory)
            for ns2 in ('iso', 'joliet', 'udf'):
                more = [q for n2, q in cands if n2 == ns2]
                if ns2 != ns and more and r.random() < 0.7:
                    op['%s_path' % ns2] = r.choice(more)
        elif x < 0.4:
            # ... one of which still has entries: the whole call has to be refused
            for ns2 in ('joliet', 'udf', 'iso'):
                full = [q for q, n in model.ns[ns2].items() if n.kind == 'dir' and q != '/' and model.children(ns2, q)]
                if ns2 != ns and full:
                    op['%s_path' % ns2] = r.choice(full)
                    break
        return op

    def symlink_target(self):
        r = self.rng
        x = r.random()
        if x < 0.2:
            return r.choice(['.', '..', '/', '../..', './a', '/usr/bin/x', 'a/./b/../c', '../../../x'])
        if x < 0.3:
            # complete components that end at or near the end of an SL record (the boundary moves
            # with the room the record has left, i.e. with the entry's own name)
            first = r.choice(list(range(88, 100)) + list(range(120, 135)) + [150, 200, 247, 248, 249, 250])
            return 'a' * first + '/' + 'b' * r.choice([1, 30, 120, 250]) + r.choice(['', '/c', '/c/d'])
        comps = []
        if r.random() < 0.3:
            comps.append('')  # leading slash -> absolute
        for _ in range(r.choice([1, 1, 2, 3, 6, 20])):
            y = r.random()
            if y < 0.1:
                comps.append('..')
            elif y < 0.15:
                comps.append('.')
            elif y < 0.22:
                pool = r.choice(UNI_POOLS[1:5])
                comps.append(''.join(r.choice(pool) for _ in range(r.choice([1, 3, 10, 40]))))
            elif y < 0.3:
                comps.append(''.join(r.choice('abcdefghij') for _ in range(r.choice([100, 200, 248, 249, 250, 251, 255, 256, 260]))))
            elif y < 0.36:
                # ordinary names made of / ending in dots, long enough to be split across SL
                # records so that a piece reads '.' or '..'
                n = r.choice([0, 1, 2, 3, 120, 180, 200, 247, 248, 249, 250, 251, 252, 253, 254, 375, 376, 377, 378, 500])
                n += r.choice([0, 0, 0, -7, -19, -33])
                comps.append('a' * max(0, n) + r.choice(['...', '..', '.', '....', '.. ', '..a..'])[:None] if n > 0 else r.choice(['...', '....', '.a', '..a']))
            else:
                comps.append(''.join(r.choice('abcdefghijklmnop') for _ in range(r.randint(1, 12))))
        t = '/'.join(comps)
        return t or 'x'

    def op_add_symlink(self, model):
        cfg = model.cfg
        r = self.rng
        if not cfg.rr and not cfg.udf:
            return None
        op = {'op': 'add_symlink'}
        use_rr = bool(cfg.rr)
        use_udf = cfg.udf and (not use_rr or r.random() < 0.6)
        if use_rr:
            op['symlink_path'] = join(self.pick_dir(model, 'iso', self.max_depth), self.iso_file_name(cfg.level))
            op['rr_symlink_name'] = self.rr_name(long_bias=0.05)
            op['rr_path'] = self.symlink_target()
        elif use_udf and r.random() < 0.5:
            op['symlink_path'] = join(self.pick_dir(model, 'iso', self.max_depth), self.iso_file_name(cfg.level))
        if use_udf:
            op['udf_symlink_path'] = join(self.pick_dir(model, 'udf'), self.udf_name())
            op['udf_target'] = self.symlink_target() if not use_rr else op['rr_path']
            if not use_rr and r.random() < 0.1:
                # a target whose path components need more than one sector (the data of a UDF symlink)
                op['udf_target'] = '/'.join(chr(97 + k % 26) * r.choice([200, 230, 245, 250]) for k in range(r.choice([9, 10, 12, 17])))
        if cfg.joliet and r.random() < 0.5 and (use_rr or 'symlink_path' not in op or True):
            op['joliet_path'] = join(self.pick_dir(model, 'joliet'), self.uni_name())
        return op

    def op_hidden(self, model):
        r = self.rng
        cfg = model.cfg
        choices = []
        for p in model.ns['iso']:
            choices.append(('iso_path', p))
            if cfg.rr:
                rp = model.rr_path_of(p)
                if rp:
                    choices.append(('rr_path', rp))
        for p in model.ns['joliet']:
            choices.append(('joliet_path', p))
        if not choices:
            return None
        k, p = r.choice(choices)
        return {'op': r.choice(['set_hidden', 'set_hidden', 'clear_hidden']), k: p}

    WEIGHTS = {
        'std': {'add_fp': 30, 'add_directory': 14, 'rm_file': 10, 'rm_hard_link': 5, 'add_hard_link': 8,
                'rm_directory': 5, 'add_symlink': 6, 'hidden': 4, 'duplicate_pvd': 1},
        'links': {'add_fp': 25, 'add_directory': 5, 'rm_file': 14, 'rm_hard_link': 18, 'add_hard_link': 25,
                  'rm_directory': 2, 'add_symlink': 3},
        'churn': {'add_fp': 30, 'add_directory': 16, 'rm_file': 22, 'rm_hard_link': 6, 'add_hard_link': 5,
                  'rm_directory': 12, 'add_symlink': 6},
        'names': {'add_fp': 40, 'add_directory': 20, 'rm_file': 10, 'rm_directory': 5, 'add_symlink': 20},
        'grow': {'add_fp': 60, 'add_directory': 25, 'add_symlink': 8, 'add_hard_link': 5, 'hidden': 2},
    }

    def gen_op(self, model):
        w = self.WEIGHTS.get(self.profile, self.WEIGHTS['std'])
        names = list(w)
        for _ in range(10):
            k = self.rng.choices(names, [w[n] for n in names])[0]
            if k == 'hidden':
                op = self.op_hidden(model)
            elif k == 'duplicate_pvd':
                op = {'op': 'duplicate_pvd'}
            else:
                op = getattr(self, 'op_' + k)(model)
            if op is not None:
                return op
        return self.op_add_fp(model)
