"""Keyed content: every blob is a deterministic function of (cid, length) and is
distinguishable from every other blob (unique-value idiom), so the bytes a
reader returns identify the write they came from.

Small blobs (<= SMALL_MAX) are seeded pseudo-random bytes (unique at any
offset).  Large blobs are generated sector-wise without being stored: each
2048-byte sector is a 16-byte header (magic, cid, sector index, check) followed
by a cid-dependent rotation of a fixed filler table, so multi-GiB files cost
no memory and ~1 s/GiB.

blob(cid, length)                  -> bytes (small files)
span(cid, length, offset, n)       -> bytes [offset, offset+n) of the blob
PatternReader(cid, length)         -> seekable read-only stream
identify(sector_bytes[:16])        -> (cid, sector_index) for large-blob sectors
"""
import io
import random
import struct

SMALL_MAX = 4 << 20
UNIT = 2048
_MAGIC = b'\xa5PAT'
_FILL = random.Random(0xF111).randbytes(UNIT - 16)
_FILL2 = _FILL + _FILL
_cache = {}


def _small(cid, length):
    key = (cid, length)
    b = _cache.get(key)
    if b is None:
        if len(_cache) > 512:
            _cache.clear()
        b = random.Random('%s/%d' % (cid, length)).randbytes(length)
        _cache[key] = b
    return b


def _header(cid, index):
    chk = (cid * 2654435761 + index * 40503 + 0x9e3779b9) & 0xffffffff
    return _MAGIC + struct.pack('>IIL', cid & 0xffffffff, index, chk)


def _sectors(cid, first, n):
    rot = (cid * 37) % (UNIT - 16)
    fill = _FILL2[rot:rot + UNIT - 16]
    base = (cid * 2654435761 + 0x9e3779b9)
    c = cid & 0xffffffff
    pack = struct.pack
    return b''.join([_MAGIC + pack('>IIL', c, i, (base + i * 40503) & 0xffffffff) + fill for i in range(first, first + n)])


def span(cid, length, offset, n):
    """Bytes [offset, offset+n) of blob (cid, length), clipped to the blob."""
    if offset < 0:
        offset = 0
    n = max(0, min(n, length - offset))
    if n == 0:
        return b''
    if length <= SMALL_MAX or not isinstance(cid, int):
        return _small(cid, length)[offset:offset + n]
    first = offset // UNIT
    last = (offset + n - 1) // UNIT
    buf = _sectors(cid, first, last - first + 1)
    start = offset - first * UNIT
    return buf[start:start + n]


def raw_span(cid, offset, n):
    """Unclipped large-blob pattern bytes (used by the virtual disk)."""
    first = offset // UNIT
    last = (offset + n - 1) // UNIT
    buf = _sectors(cid, first, last - first + 1)
    start = offset - first * UNIT
    return buf[start:start + n]


def blob(cid, length):
    return span(cid, length, 0, length)


def identify(head16):
    """(cid, sector index) if head16 is the header of a large-blob sector."""
    if len(head16) < 16 or head16[:4] != _MAGIC:
        return None
    cid, idx, chk = struct.unpack('>IIL', head16[4:16])
    if _header(cid, idx) == head16[:16]:
        return (cid, idx)
    return None


class PatternReader(io.RawIOBase):
    """Seekable, read-only stream over blob(cid, length) without storing it."""

    def __init__(self, cid, length):
        super().__init__()
        self.cid = cid
        self.length = length
        self.pos = 0
        self.bytes_read = 0

    def readable(self):
        return True

    def seekable(self):
        return True

    def tell(self):
        return self.pos

    def seek(self, offset, whence=0):
        if whence == 0:
            self.pos = offset
        elif whence == 1:
            self.pos += offset
        else:
            self.pos = self.length + offset
        return self.pos

    def read(self, size=-1):
        if size is None or size < 0:
            size = max(0, self.length - self.pos)
        data = span(self.cid, self.length, self.pos, size)
        self.pos += len(data)
        self.bytes_read += len(data)
        return data

    def readinto(self, b):
        data = self.read(len(b))
        b[:len(data)] = data
        return len(data)
