"""Second workload source: the images the repository's own tests master (DESIGN.md 2.10).

The runner records them once per run (`prepare`): the repository's suite is run from the
repository under test with `harness.suite_plugin`, which copies every completely written image
into a spool directory.  The property modules that opt in (SUITE_TIERS) then get NSLOTS extra
cases; slot k applies the module's model-free oracle `suite_oracle(data) -> [violation]` to the
images k, k+NSLOTS, ...  An image that violates is copied next to its replay document."""
import os
import shutil
import subprocess
import tempfile

from harness import env

NSLOTS = 32
VERIF = os.path.dirname(os.path.dirname(os.path.abspath(__file__)))


def prepare(jobs=8, timeout=1500, twin=False):
    """Returns (spool directory, summary dict).  twin: the suite is run twice under the determinism
    shim - as it is, and with every PyCdlib object made always-consistent - into the sub-directories
    'lazy' and 'always' of the spool."""
    base = '/dev/shm' if os.path.isdir('/dev/shm') and os.access('/dev/shm', os.W_OK) else None
    spool = tempfile.mkdtemp(prefix='verif-suite-', dir=base)
    if twin:
        info = {}
        for mode in ('lazy', 'always'):
            sub = os.path.join(spool, mode)
            os.makedirs(sub)
            info[mode] = _run_suite(sub, jobs, timeout, {'VERIF_SUITE_FREEZE': '1', **({'VERIF_SUITE_ALWAYS_CONSISTENT': '1'} if mode == 'always' else {})})
        return spool, {'suite_run': info, 'suite_images': len(images(os.path.join(spool, 'lazy')))}
    tail = _run_suite(spool, jobs, timeout, {})
    return spool, {'suite_run': tail, 'suite_images': len(images(spool))}


def _run_suite(spool, jobs, timeout, extra_env):
    e = dict(os.environ)
    e['PYTHONPATH'] = VERIF + os.pathsep + env.REPO
    e['VERIF_REPO'] = env.REPO
    e['VERIF_SUITE_SPOOL'] = spool
    e.pop('PYCDLIB_VERIF', None)
    for k in ('VERIF_SUITE_FREEZE', 'VERIF_SUITE_ALWAYS_CONSISTENT'):
        e.pop(k, None)
    e.update(extra_env)
    cmd = ['/venv/bin/python', '-m', 'pytest', '-q', '-p', 'no:cacheprovider', '-n', str(max(2, min(jobs, 8))),
           '-p', 'harness.suite_plugin', 'tests/integration/test_new.py', 'tests/integration/test_facade.py']
    try:
        p = subprocess.run(cmd, cwd=env.REPO, env=e, stdout=subprocess.PIPE, stderr=subprocess.STDOUT, timeout=timeout)
        tail = p.stdout.decode('utf-8', 'replace').strip().splitlines()[-1:]
    except subprocess.TimeoutExpired:
        tail = ['timeout']
    return tail[0] if tail else '?'


def images(spool):
    return sorted(os.path.join(spool, f) for f in os.listdir(spool) if f.endswith('.iso'))


def sequences(spool):
    """test id -> [sha1 of the images it mastered, in order]"""
    out = {}
    for f in sorted(os.listdir(spool)):
        if f.startswith('index-'):
            with open(os.path.join(spool, f)) as fh:
                for line in fh:
                    parts = line.rstrip('\n').split('\t')
                    if len(parts) == 4:
                        out.setdefault(parts[0], []).append(parts[1] if parts[3] == 'ok' else parts[3])
    return out


def run_twin_slot(prop, slot):
    """One extra case of C06: this slot's share of the tests, image sequence of the run as it is
    against the run on always-consistent objects."""
    spool = os.environ.get('VERIF_SUITE_SPOOL')
    counters = {}
    vio = []
    if not spool or not os.path.isdir(os.path.join(spool, 'lazy')) or not os.path.isdir(os.path.join(spool, 'always')):
        return {'verdict': 'inconclusive', 'error': 'suite twin spool missing', 'violations': [], 'nontrivial': False, 'shape': 'suite-twin/%d' % slot,
                'sample': None, 'counters': counters}
    a, b = sequences(os.path.join(spool, 'lazy')), sequences(os.path.join(spool, 'always'))
    mine = sorted(a)[slot::NSLOTS]
    for t in mine:
        counters['suite_images_checked'] = counters.get('suite_images_checked', 0) + len(a[t])
        if a[t] != b.get(t):
            got = b.get(t) or []
            k = next((j for j in range(min(len(a[t]), len(got))) if a[t][j] != got[j]), min(len(a[t]), len(got)))
            keep = []
            for mode, seq in (('lazy', a[t]), ('always', got)):
                if k < len(seq) and len(seq[k]) == 40:
                    dst = os.path.join(VERIF, 'replays', prop, 'suite-%s-%s.iso' % (mode, seq[k][:16]))
                    os.makedirs(os.path.dirname(dst), exist_ok=True)
                    shutil.copyfile(os.path.join(spool, mode, seq[k] + '.iso'), dst)
                    keep.append(dst)
            vio.append({'key': 'suite:always-consistent-differs', 'detail': '%s: image %d mastered on always-consistent objects differs from the one the test masters as it is (%d vs %d images)' % (t, k, len(got), len(a[t])),
                        'replay': {'property': prop, 'suite_twin': keep, 'test': t}})
    return {'verdict': 'violated' if vio else 'held', 'violations': vio, 'nontrivial': bool(mine), 'shape': 'suite-twin/%d/%d' % (slot, len(mine)),
            'sample': {'suite_slot': slot, 'tests': len(mine), 'first_test': mine[0] if mine else None}, 'counters': counters}


def replay_twin(doc):
    files = doc.get('suite_twin') or []
    if len(files) == 2:
        with open(files[0], 'rb') as f0, open(files[1], 'rb') as f1:
            if f0.read() == f1.read():
                return []
    return [{'key': 'suite:always-consistent-differs', 'detail': doc.get('test', '?')}]


def tests_of(spool):
    out = {}
    for f in os.listdir(spool):
        if f.startswith('index-'):
            with open(os.path.join(spool, f)) as fh:
                for line in fh:
                    parts = line.rstrip('\n').split('\t')
                    if len(parts) == 4 and parts[3] == 'ok':
                        out.setdefault(parts[1], parts[0])
    return out


def cleanup(spool):
    shutil.rmtree(spool, ignore_errors=True)


def run_slot(prop, slot, oracle):
    """One extra case of a property module: the oracle over this slot's share of the spool."""
    spool = os.environ.get('VERIF_SUITE_SPOOL')
    counters = {}
    vio = []
    if not spool or not os.path.isdir(spool):
        return {'verdict': 'inconclusive', 'error': 'suite spool missing', 'violations': [], 'nontrivial': False, 'shape': 'suite/%d' % slot,
                'sample': None, 'counters': counters}
    names = tests_of(spool)
    mine = images(spool)[slot::NSLOTS]
    for path in mine:
        with open(path, 'rb') as f:
            data = f.read()
        sha = os.path.basename(path)[:-4]
        counters['suite_images_checked'] = counters.get('suite_images_checked', 0) + 1
        for v in oracle(data):
            keep = os.path.join(VERIF, 'replays', prop, 'suite-%s.iso' % sha[:16])
            os.makedirs(os.path.dirname(keep), exist_ok=True)
            if not os.path.exists(keep):
                shutil.copyfile(path, keep)
            vio.append(dict(v, detail='image written by %s: %s' % (names.get(sha, '?'), v.get('detail', '')),
                            replay={'property': prop, 'suite_image': keep, 'test': names.get(sha, '?')}))
    return {'verdict': 'violated' if vio else 'held', 'violations': vio, 'nontrivial': bool(mine), 'shape': 'suite/%d/%d' % (slot, len(mine)),
            'sample': {'suite_slot': slot, 'images': len(mine), 'first_test': names.get(os.path.basename(mine[0])[:-4]) if mine else None},
            'counters': counters}


def replay(doc, oracle):
    with open(doc['suite_image'], 'rb') as f:
        return oracle(f.read())
