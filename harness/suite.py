"""Second workload source: the images the repository's own tests master (DESIGN.md 2.10).

The runner records them once per run (`prepare`): the repository's suite is run from the
repository under test with `harness.suite_plugin`, which copies every completely written image
into a spool directory.  The property modules that opt in (SUITE_TIERS) then get NSLOTS extra
cases; slot k applies the module's model-free oracle `suite_oracle(data) -> [violation]` to the
images k, k+NSLOTS, ...  An image that violates is copied next to its replay document."""
import os
import shutil
import subprocess
import tempfile

from harness import env

NSLOTS = 32
VERIF = os.path.dirname(os.path.dirname(os.path.abspath(__file__)))


def prepare(jobs=8, timeout=1500):
    """Returns (spool directory, summary dict)."""
    base = '/dev/shm' if os.path.isdir('/dev/shm') and os.access('/dev/shm', os.W_OK) else None
    spool = tempfile.mkdtemp(prefix='verif-suite-', dir=base)
    e = dict(os.environ)
    e['PYTHONPATH'] = VERIF + os.pathsep + env.REPO
    e['VERIF_SUITE_SPOOL'] = spool
    e.pop('PYCDLIB_VERIF', None)
    cmd = ['/venv/bin/python', '-m', 'pytest', '-q', '-p', 'no:cacheprovider', '-n', str(max(2, min(jobs, 8))),
           '-p', 'harness.suite_plugin', 'tests/integration/test_new.py', 'tests/integration/test_facade.py']
    try:
        p = subprocess.run(cmd, cwd=env.REPO, env=e, stdout=subprocess.PIPE, stderr=subprocess.STDOUT, timeout=timeout)
        tail = p.stdout.decode('utf-8', 'replace').strip().splitlines()[-1:]
    except subprocess.TimeoutExpired:
        tail = ['timeout']
    return spool, {'suite_run': tail[0] if tail else '?', 'suite_images': len(images(spool))}


def images(spool):
    return sorted(os.path.join(spool, f) for f in os.listdir(spool) if f.endswith('.iso'))


def tests_of(spool):
    out = {}
    for f in os.listdir(spool):
        if f.startswith('index-'):
            with open(os.path.join(spool, f)) as fh:
                for line in fh:
                    parts = line.rstrip('\n').split('\t')
                    if len(parts) == 4 and parts[3] == 'ok':
                        out.setdefault(parts[1], parts[0])
    return out


def cleanup(spool):
    shutil.rmtree(spool, ignore_errors=True)


def run_slot(prop, slot, oracle):
    """One extra case of a property module: the oracle over this slot's share of the spool."""
    spool = os.environ.get('VERIF_SUITE_SPOOL')
    counters = {}
    vio = []
    if not spool or not os.path.isdir(spool):
        return {'verdict': 'inconclusive', 'error': 'suite spool missing', 'violations': [], 'nontrivial': False, 'shape': 'suite/%d' % slot,
                'sample': None, 'counters': counters}
    names = tests_of(spool)
    mine = images(spool)[slot::NSLOTS]
    for path in mine:
        with open(path, 'rb') as f:
            data = f.read()
        sha = os.path.basename(path)[:-4]
        counters['suite_images_checked'] = counters.get('suite_images_checked', 0) + 1
        for v in oracle(data):
            keep = os.path.join(VERIF, 'replays', prop, 'suite-%s.iso' % sha[:16])
            os.makedirs(os.path.dirname(keep), exist_ok=True)
            if not os.path.exists(keep):
                shutil.copyfile(path, keep)
            vio.append(dict(v, detail='image written by %s: %s' % (names.get(sha, '?'), v.get('detail', '')),
                            replay={'property': prop, 'suite_image': keep, 'test': names.get(sha, '?')}))
    return {'verdict': 'violated' if vio else 'held', 'violations': vio, 'nontrivial': bool(mine), 'shape': 'suite/%d/%d' % (slot, len(mine)),
            'sample': {'suite_slot': slot, 'images': len(mine), 'first_test': names.get(os.path.basename(mine[0])[:-4]) if mine else None},
            'counters': counters}


def replay(doc, oracle):
    with open(doc['suite_image'], 'rb') as f:
        return oracle(f.read())
