import importlib, json, sys
from harness import env
env.install(0)
from harness import shrink, driver
from harness.props import common


def clean2(cfg, ops, ops2, seed):
    """Two-generation clean: returns (ops, ops2) accepted without refusals."""
    ops = shrink.clean(cfg, ops, seed)
    s = driver.replay(cfg, ops, seed)
    img, oc = s.write()
    if not oc.ok:
        s.close()
        return ops, None
    s2, oc = s.reopen(img.getvalue())
    if not oc.ok:
        s.close()
        return ops, None
    acc = []
    for op in ops2:
        n_err = len(s2.model_errors)
        out = s2.step(op)
        if out.ok and len(s2.model_errors) == n_err:
            acc.append(op)
        elif out.ok:
            s2.close(); s.close()
            return ops, None
    s2.close(); s.close()
    return ops, acc


def main():
    prop, path = sys.argv[1], sys.argv[2]
    mod = importlib.import_module('harness.props.' + prop.lower())
    doc = json.load(open(path))
    key = sys.argv[3] if len(sys.argv) > 3 and sys.argv[3] != '-' else doc['key']
    cfg, ops, seed = common.doc_cfg_ops(doc)
    ops2 = driver.ops_from_json(doc.get('ops2') or [])

    def has(ops_, ops2_):
        d = dict(doc); d['ops'] = driver.ops_to_json(ops_)
        if ops2:
            d['ops2'] = driver.ops_to_json(ops2_)
        return any(v['key'] == key for v in mod.replay(d))

    if not has(ops, ops2):
        print('witness does not reproduce', key); return 1
    if ops2:
        # shrink second generation with the first fixed
        def has2(cfg_, cand, seed_):
            o, c2 = clean2(cfg, ops, cand, seed)
            return c2 is not None and len(c2) == len(cand) and has(ops, c2)
        small2 = ddmin_plain(ops2, lambda cand: has2(cfg, cand, seed))
        def has1(cand):
            o, c2 = clean2(cfg, cand, small2, seed)
            return c2 is not None and len(o) == len(cand) and len(c2) == len(small2) and has(o, c2)
        small = ddmin_plain(ops, has1)
    else:
        small = shrink.ddmin(cfg, ops, seed, lambda c, o, s: has(o, []))
        small2 = []
    print('key', key, 'cfg', cfg, 'ops', len(ops), '->', len(small), 'ops2', len(ops2), '->', len(small2))
    for o in small:
        print(json.dumps(driver.ops_to_json([o])[0], ensure_ascii=False)[:300])
    if small2:
        print('--- reopen ---')
    for o in small2:
        print(json.dumps(driver.ops_to_json([o])[0], ensure_ascii=False)[:300])
    if len(sys.argv) > 4:
        d = dict(doc); d['ops'] = driver.ops_to_json(small)
        if ops2:
            d['ops2'] = driver.ops_to_json(small2)
        json.dump(d, open(sys.argv[4], 'w'), indent=1)


def ddmin_plain(items, test, max_tests=300):
    cur = list(items)
    n = 2
    tests = 0
    while len(cur) >= 1 and tests < max_tests:
        if len(cur) == 1:
            tests += 1
            if test([]):
                cur = []
            break
        chunk = max(1, len(cur) // n)
        subsets = [cur[i:i + chunk] for i in range(0, len(cur), chunk)]
        reduced = False
        for i in range(len(subsets)):
            comp = [x for j, s in enumerate(subsets) if j != i for x in s]
            tests += 1
            if test(comp):
                cur = comp
                n = max(n - 1, 2)
                reduced = True
                break
        if not reduced:
            if n >= len(cur):
                break
            n = min(len(cur), n * 2)
    return cur


main()
