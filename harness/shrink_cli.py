import importlib, json, sys
from harness import env
env.install(0)
from harness import shrink, driver
from harness.props import common

def main():
    prop, path = sys.argv[1], sys.argv[2]
    mod = importlib.import_module('harness.props.' + prop.lower())
    doc = json.load(open(path))
    key = sys.argv[3] if len(sys.argv) > 3 else doc['key']
    cfg, ops, seed = common.doc_cfg_ops(doc)
    def has_key(cfg, ops, seed):
        d = dict(doc); d['ops'] = driver.ops_to_json(ops)
        return any(v['key'] == key for v in mod.replay(d))
    if not has_key(cfg, ops, seed):
        print('witness does not reproduce', key); return 1
    small = shrink.ddmin(cfg, ops, seed, has_key)
    print('key', key, 'cfg', cfg, 'ops', len(ops), '->', len(small))
    for o in small:
        print(json.dumps(driver.ops_to_json([o])[0], ensure_ascii=False)[:400])
    if len(sys.argv) > 4:
        d = dict(doc); d['ops'] = driver.ops_to_json(small)
        json.dump(d, open(sys.argv[4], 'w'), indent=1)
main()
