"""Delta debugging over recorded histories, with the property's own monitor as
the test.  Used to turn a violating history into a minimal witness."""
from harness import driver


def clean(cfg, ops, seed):
    """Drop operations the library refuses when the list is replayed (removing
    an op can make a later one illegal); returns the accepted sub-list, iterated
    to a fixpoint so that the result replays without any refusal."""
    for _ in range(5):
        s = driver.replay(cfg, ops, seed)
        acc = list(s.accepted)
        if s.model_errors:
            bad = [id(o) for o, _ in s.model_errors]
            acc = [o for o in acc if id(o) not in bad]
            s.close()
            ops = acc
            continue
        s.close()
        if len(acc) == len(ops):
            return acc
        ops = acc
    return ops


def ddmin(cfg, ops, seed, has_key, max_tests=400):
    """has_key(cfg, ops, seed) -> bool.  Classic ddmin on the op list."""
    tests = [0]

    def test(cand):
        tests[0] += 1
        cand = clean(cfg, cand, seed)
        if not cand:
            return None
        return cand if has_key(cfg, cand, seed) else None

    n = 2
    cur = list(ops)
    while len(cur) >= 2 and tests[0] < max_tests:
        chunk = max(1, len(cur) // n)
        subsets = [cur[i:i + chunk] for i in range(0, len(cur), chunk)]
        reduced = False
        for i in range(len(subsets)):
            comp = [op for j, s in enumerate(subsets) if j != i for op in s]
            got = test(comp)
            if got is not None:
                cur = got
                n = max(n - 1, 2)
                reduced = True
                break
            if tests[0] >= max_tests:
                break
        if not reduced:
            if n >= len(cur):
                break
            n = min(len(cur), n * 2)
    return cur
