"""pytest plugin: records every image the repository's own tests master.

Loaded with `-p harness.suite_plugin` (PYTHONPATH holds /verif and the repository).  It wraps
PyCdlib.write_fp / PyCdlib.write at the class boundary (nothing in the repository is edited) and
copies each image that was written completely into the spool directory named by
VERIF_SUITE_SPOOL, as <sha1>.iso plus a line in index-<pid>.txt (test id, sha1, length).  Images
larger than VERIF_SUITE_MAX bytes (default 32 MiB) are only counted."""
import hashlib
import os

import pycdlib

SPOOL = os.environ.get('VERIF_SUITE_SPOOL')
MAXLEN = int(os.environ.get('VERIF_SUITE_MAX', str(32 << 20)))
_current = ['?']


def _record(data_or_path):
    try:
        if isinstance(data_or_path, (bytes, bytearray)):
            data = bytes(data_or_path)
        else:
            if os.path.getsize(data_or_path) > MAXLEN:
                _note('-', os.path.getsize(data_or_path), 'too-large')
                return
            with open(data_or_path, 'rb') as f:
                data = f.read()
        if len(data) > MAXLEN:
            _note('-', len(data), 'too-large')
            return
        h = hashlib.sha1(data).hexdigest()
        p = os.path.join(SPOOL, h + '.iso')
        if not os.path.exists(p):
            tmp = p + '.%d.tmp' % os.getpid()
            with open(tmp, 'wb') as f:
                f.write(data)
            os.replace(tmp, p)
        _note(h, len(data), 'ok')
    except Exception as e:   # recording must never change a test's outcome
        _note('-', 0, 'record-error:%s' % type(e).__name__)


def _note(h, n, what):
    with open(os.path.join(SPOOL, 'index-%d.txt' % os.getpid()), 'a') as f:
        f.write('%s\t%s\t%d\t%s\n' % (_current[0], h, n, what))


def pytest_configure(config):
    if not SPOOL:
        return
    os.makedirs(SPOOL, exist_ok=True)
    if os.environ.get('VERIF_SUITE_FREEZE'):
        # twin runs of the suite must see the same clock, uuids and random numbers
        from harness import env
        env.install(0)
    if os.environ.get('VERIF_SUITE_ALWAYS_CONSISTENT'):
        # the same tests on objects that keep their metadata consistent after every call
        orig_init = pycdlib.PyCdlib.__init__

        def init(self, always_consistent=False):
            orig_init(self, always_consistent=True)
        pycdlib.PyCdlib.__init__ = init
    orig_write_fp = pycdlib.PyCdlib.write_fp
    orig_write = pycdlib.PyCdlib.write

    def write_fp(self, outfp, *a, **kw):
        res = orig_write_fp(self, outfp, *a, **kw)
        if not getattr(self, '_verif_in_write', False):
            try:
                if hasattr(outfp, 'getvalue'):
                    _record(outfp.getvalue())
                elif getattr(outfp, 'name', None) and isinstance(outfp.name, str) and os.path.exists(outfp.name):
                    outfp.flush()
                    _record(outfp.name)
            except Exception:
                pass
        return res

    def write(self, filename, *a, **kw):
        self._verif_in_write = True
        try:
            res = orig_write(self, filename, *a, **kw)
        finally:
            self._verif_in_write = False
        _record(filename)
        return res

    pycdlib.PyCdlib.write_fp = write_fp
    pycdlib.PyCdlib.write = write


def pytest_runtest_setup(item):
    _current[0] = item.nodeid
    if os.environ.get('VERIF_SUITE_FREEZE'):
        from harness import env
        env.reset(0)
