"""Reference model: what the user built, as the documentation promises it.

State is deliberately small and independent of pycdlib's implementation:
one tree per namespace (iso / joliet / udf; the Rock Ridge tree is the iso tree
seen through its rr names), link groups (content id -> names), boot state.
The model never predicts bytes or layout.
"""
import copy
import hashlib

from harness import blobs


class Cfg:
    __slots__ = ('level', 'joliet', 'rr', 'udf', 'xa', 'extra')

    def __init__(self, level=1, joliet=None, rr=None, udf=False, xa=False, extra=None):
        self.level = level
        self.joliet = joliet
        self.rr = rr
        self.udf = udf
        self.xa = xa
        # further keyword arguments of PyCdlib.new() (volume descriptor fields); JSON-able
        self.extra = dict(extra) if extra else {}

    def with_extra(self, extra):
        return Cfg(self.level, self.joliet, self.rr, self.udf, self.xa, extra)

    def new_kwargs(self):
        kw = {'interchange_level': self.level}
        if self.joliet:
            kw['joliet'] = self.joliet
        if self.rr:
            kw['rock_ridge'] = self.rr
        if self.udf:
            kw['udf'] = '2.60'
        if self.xa:
            kw['xa'] = True
        kw.update(self.extra)
        return kw

    def key(self):
        return (self.level, self.joliet, self.rr, self.udf, self.xa)

    def to_json(self):
        d = {'level': self.level, 'joliet': self.joliet, 'rr': self.rr, 'udf': self.udf, 'xa': self.xa}
        if self.extra:
            d['extra'] = dict(self.extra)
        return d

    @staticmethod
    def from_json(d):
        return Cfg(d['level'], d['joliet'], d['rr'], d['udf'], d['xa'], d.get('extra'))

    def namespaces(self):
        ns = ['iso']
        if self.rr:
            ns.append('rr')
        if self.joliet:
            ns.append('joliet')
        if self.udf:
            ns.append('udf')
        return ns

    def __repr__(self):
        return 'Cfg(L%d j=%s rr=%s udf=%s xa=%s%s)' % (self.level, self.joliet, self.rr, self.udf, self.xa, ' +%d vd fields' % len(self.extra) if self.extra else '')


ALL_CFGS = [Cfg(l, j, r, u, x) for l in (1, 2, 3, 4) for j in (None, 1, 2, 3)
            for r in (None, '1.09', '1.10', '1.12') for u in (False, True) for x in (False, True)]


class Node:
    __slots__ = ('kind', 'cid', 'target', 'hidden', 'rr_name', 'mode', 'born')

    def __init__(self, kind, cid=None, target=None, hidden=False, rr_name=None, mode=None, born=0):
        self.kind = kind          # 'dir' | 'file' | 'symlink'
        self.cid = cid            # content id for files (None: no content object, length 0)
        self.target = target      # symlink target
        self.hidden = hidden
        self.rr_name = rr_name
        self.mode = mode
        self.born = born          # generation in which the entry was created

    def clone(self):
        return Node(self.kind, self.cid, self.target, self.hidden, self.rr_name, self.mode, self.born)


class Content:
    __slots__ = ('cid', 'length', 'data', 'bit', 'special')

    def __init__(self, cid, length, data=None, special=None):
        self.cid = cid
        self.length = length
        self.data = data          # explicit bytes, or None -> pattern blob(cid, length)
        self.bit = False          # boot info table patched into bytes 8..63
        self.special = special    # 'catalog' for the El Torito catalog pseudo-file

    def bytes(self):
        if self.data is not None:
            return self.data
        return blobs.blob(self.cid, self.length)


def parent_of(path):
    if path == '/':
        return None
    p = path.rsplit('/', 1)[0]
    return p or '/'


def basename(path):
    return path.rsplit('/', 1)[1]


def join(parent, name):
    return (parent if parent != '/' else '') + '/' + name


class Model:
    def __init__(self, cfg):
        self.cfg = cfg
        self.ns = {'iso': {}, 'joliet': {}, 'udf': {}}
        self.contents = {}
        self.boot = None      # {'catalog': [(ns, path)], 'entries': [dict]}
        self.hybrid = None
        self.generation = 0
        self.rr_moved = None  # (iso name, rr name) once relocation happened
        self.rr_moved_name = None  # set_relocated_name on the current object
        self.reloc_name = None  # names of the relocation directory while it exists
        self.n_dup_pvd = 0

    def clone(self):
        return copy.deepcopy(self)

    # ---- queries ------------------------------------------------------------
    def has_ns(self, ns):
        if ns == 'iso':
            return True
        if ns == 'rr':
            return bool(self.cfg.rr)
        if ns == 'joliet':
            return bool(self.cfg.joliet)
        if ns == 'udf':
            return bool(self.cfg.udf)
        return False

    def dirs(self, ns):
        return ['/'] + [p for p, n in self.ns[ns].items() if n.kind == 'dir']

    def files(self, ns):
        return [p for p, n in self.ns[ns].items() if n.kind == 'file']

    def children(self, ns, path):
        pre = path if path != '/' else ''
        return [p for p in self.ns[ns] if parent_of(p) == path]

    def exists(self, ns, path):
        return path == '/' or path in self.ns[ns]

    def is_dir(self, ns, path):
        return path == '/' or (path in self.ns[ns] and self.ns[ns][path].kind == 'dir')

    def names_of(self, cid):
        out = []
        for ns in ('iso', 'joliet', 'udf'):
            for p, n in self.ns[ns].items():
                if n.kind == 'file' and n.cid == cid and cid is not None:
                    out.append((ns, p))
        return out

    def boot_refs(self, cid):
        if self.boot is None:
            return 0
        return sum(1 for e in self.boot['entries'] if e['cid'] == cid)

    def rr_path_of(self, iso_path):
        """Rock Ridge path of an iso entry (None if some component has no rr name)."""
        if iso_path == '/':
            return '/'
        comps = []
        p = iso_path
        while p != '/':
            n = self.ns['iso'].get(p)
            if n is None or n.rr_name is None:
                return None
            comps.append(n.rr_name)
            p = parent_of(p)
        return '/' + '/'.join(reversed(comps))

    def iso_path_of_rr(self, rr_path):
        for p in self.ns['iso']:
            if self.rr_path_of(p) == rr_path:
                return p
        return None

    def depth(self, path):
        return 0 if path == '/' else path.count('/')

    def relocation_active(self):
        """True while at least one directory is relocated (Rock Ridge, not level
        4: directories at a depth that is a multiple of 8); the relocation
        directory exists exactly then."""
        if not self.cfg.rr or self.cfg.level == 4:
            return False
        return any(n.kind == 'dir' and self.depth(p) % 8 == 0 for p, n in self.ns['iso'].items())

    # ---- expected views -----------------------------------------------------
    def view(self, ns):
        """{path: tuple} in the same shape as apiview.view()."""
        out = {}
        if ns == 'rr':
            for p, n in self.ns['iso'].items():
                rp = self.rr_path_of(p)
                if rp is None:
                    continue
                out[rp] = self._entry(n, 'rr')
            return out
        for p, n in self.ns[ns].items():
            out[p] = self._entry(n, ns)
        return out

    def _entry(self, n, ns):
        if n.kind == 'dir':
            return ('dir', None, None, None, n.hidden if ns != 'udf' else False)
        if n.kind == 'symlink':
            if ns in ('rr', 'udf'):
                return ('symlink', None, None, n.target, n.hidden if ns != 'udf' else False)
            return ('file', 0, None, None, n.hidden)
        if n.cid is None:
            return ('file', 0, None, None, n.hidden if ns != 'udf' else False)
        c = self.contents[n.cid]
        return ('file', c.length, n.cid, None, n.hidden if ns != 'udf' else False)

    def content_bytes(self, cid):
        return self.contents[cid].bytes()

    # ---- edits (only called for operations the library accepted) -----------
    def apply(self, op):
        getattr(self, 'op_' + op['op'])(op)
        self._update_reloc()

    def _update_reloc(self):
        """The relocation directory exists exactly while a directory is relocated; it is created
        under the name configured on the *current object* (set_relocated_name is not stored in the
        image) and keeps that name for as long as it exists."""
        if self.relocation_active():
            if getattr(self, 'reloc_name', None) is None:
                self.reloc_name = getattr(self, 'rr_moved_name', None) or ('RR_MOVED', 'rr_moved')
        else:
            self.reloc_name = None

    def _add_file_node(self, ns, path, cid, rr_name=None, mode=None):
        self.ns[ns][path] = Node('file', cid=cid, rr_name=rr_name, mode=mode, born=self.generation)

    def op_add_fp(self, op):
        cid = op['cid']
        self.contents[cid] = Content(cid, op['length'], op.get('data'))
        if op.get('iso_path'):
            self._add_file_node('iso', op['iso_path'], cid, op.get('rr_name'), op.get('file_mode'))
        if op.get('joliet_path'):
            self._add_file_node('joliet', op['joliet_path'], cid)
        if op.get('udf_path'):
            self._add_file_node('udf', op['udf_path'], cid)

    def op_add_directory(self, op):
        if op.get('iso_path'):
            self.ns['iso'][op['iso_path']] = Node('dir', rr_name=op.get('rr_name'), mode=op.get('file_mode'), born=self.generation)
            if self.cfg.rr and self.cfg.level < 4 and self.depth(op['iso_path']) % 8 == 0 and self.rr_moved is None:
                self.rr_moved = op.get('_rr_moved', ('RR_MOVED', 'rr_moved'))
        if op.get('joliet_path'):
            self.ns['joliet'][op['joliet_path']] = Node('dir', born=self.generation)
        if op.get('udf_path'):
            self.ns['udf'][op['udf_path']] = Node('dir', born=self.generation)

    def op_rm_directory(self, op):
        for ns, key in (('iso', 'iso_path'), ('joliet', 'joliet_path'), ('udf', 'udf_path')):
            if op.get(key):
                self.ns[ns].pop(op[key], None)

    def _resolve_one(self, op):
        for ns, key in (('iso', 'iso_path'), ('joliet', 'joliet_path'), ('udf', 'udf_path')):
            if op.get(key):
                return ns, op[key]
        return None, None

    def op_rm_file(self, op):
        ns, path = self._resolve_one(op)
        node = self.ns[ns][path]
        if node.kind == 'file' and node.cid is not None:
            for (n2, p2) in self.names_of(node.cid):
                del self.ns[n2][p2]
            if not self.boot_refs(node.cid):
                self.contents.pop(node.cid, None)
        else:
            del self.ns[ns][path]

    def op_rm_hard_link(self, op):
        ns, path = self._resolve_one(op)
        node = self.ns[ns].pop(path)
        if self.boot is not None and (ns, path) in self.boot['catalog']:
            self.boot['catalog'].remove((ns, path))
        if node.kind == 'file' and node.cid is not None:
            if not self.names_of(node.cid) and not self.boot_refs(node.cid):
                self.contents.pop(node.cid, None)

    def op_add_hard_link(self, op):
        if op.get('boot_catalog_old'):
            cid = 'catalog'
        else:
            ons, opath = op['old']
            cid = self.ns[ons][opath].cid
        nns, npath = op['new']
        mode = None
        if nns == 'iso' and self.cfg.rr and not op.get('boot_catalog_old'):
            if op['old'][0] == 'iso':
                mode = self.ns['iso'][op['old'][1]].mode
            else:
                modes = [self.ns['iso'][p].mode for (n2, p) in self.names_of(cid) if n2 == 'iso']
                mode = modes[0] if modes else None
                if not modes:
                    mode = 0o100444
        self._add_file_node(nns, npath, cid, op.get('rr_name') if nns == 'iso' else None, mode)
        if op.get('boot_catalog_old'):
            self.boot['catalog'].append((nns, npath))

    def op_add_symlink(self, op):
        rr = op.get('rr_symlink_name') is not None
        if op.get('symlink_path'):
            if rr:
                self.ns['iso'][op['symlink_path']] = Node('symlink', target=op['rr_path'], rr_name=op['rr_symlink_name'], born=self.generation)
            else:
                self.ns['iso'][op['symlink_path']] = Node('file', cid=None, born=self.generation)
        if op.get('udf_symlink_path'):
            self.ns['udf'][op['udf_symlink_path']] = Node('symlink', target=op['udf_target'], born=self.generation)
        if op.get('joliet_path'):
            self.ns['joliet'][op['joliet_path']] = Node('file', cid=None, born=self.generation)

    def _hidden_target(self, op):
        if op.get('iso_path'):
            return self.ns['iso'][op['iso_path']]
        if op.get('rr_path'):
            return self.ns['iso'][self.iso_path_of_rr(op['rr_path'])]
        return self.ns['joliet'][op['joliet_path']]

    def op_set_hidden(self, op):
        self._hidden_target(op).hidden = True

    def op_clear_hidden(self, op):
        self._hidden_target(op).hidden = False

    def op_add_eltorito(self, op):
        node = self.ns['iso'][op['bootfile_path']]
        entry = {'cid': node.cid, 'platform_id': op.get('platform_id', 0), 'media_name': op.get('media_name', 'noemul'),
                 'boot_load_size': op.get('boot_load_size'), 'bootable': op.get('bootable', True),
                 'boot_load_seg': op.get('boot_load_seg', 0), 'efi': op.get('efi', False),
                 'boot_info_table': op.get('boot_info_table', False)}
        if op.get('boot_info_table'):
            self.contents[node.cid].bit = True
        if self.boot is None:
            self.boot = {'catalog': [], 'entries': [entry], 'platform_id': op.get('platform_id', 0)}
            self.contents['catalog'] = Content('catalog', 2048, special='catalog')
            cat = op.get('bootcatfile') or '/BOOT.CAT;1'
            rrname = None
            if self.cfg.rr:
                rrname = op.get('rr_bootcatname') or 'boot.cat'
            self._add_file_node('iso', cat, 'catalog', rrname)
            self.boot['catalog'].append(('iso', cat))
            if self.cfg.joliet:
                jp = op.get('joliet_bootcatfile') or '/boot.cat'
                self._add_file_node('joliet', jp, 'catalog')
                self.boot['catalog'].append(('joliet', jp))
            if self.cfg.udf:
                up = op.get('udf_bootcatfile') or '/boot.cat'
                self._add_file_node('udf', up, 'catalog')
                self.boot['catalog'].append(('udf', up))
        else:
            self.boot['entries'].append(entry)

    def op_rm_eltorito(self, op):
        for ns in ('iso', 'joliet', 'udf'):
            for p in [p for p, n in self.ns[ns].items() if n.kind == 'file' and n.cid == 'catalog']:
                del self.ns[ns][p]
        self.contents.pop('catalog', None)
        cids = set(e['cid'] for e in self.boot['entries'])
        self.boot = None
        for cid in cids:
            if cid in self.contents:
                self.contents[cid].bit = False
                if not self.names_of(cid):
                    del self.contents[cid]
        self.hybrid = None if self.hybrid is None else self.hybrid

    def op_add_isohybrid(self, op):
        self.hybrid = {k: v for k, v in op.items() if k != 'op'}

    def op_rm_isohybrid(self, op):
        self.hybrid = None

    def op_duplicate_pvd(self, op):
        self.n_dup_pvd += 1

    def op_set_relocated_name(self, op):
        self.rr_moved_name = (op['name'], op['rr_name'])

    def op_force_consistency(self, op):
        pass

    def op_modify_in_place(self, op):
        node = self.ns['iso'][op['iso_path']]
        c = self.contents[node.cid]
        c.length = op['length']
        c.data = op['data']

    # ---- generation change --------------------------------------------------
    def reopened(self):
        """The image was written and parsed again: link information of empty
        files does not survive (documented), everything else does."""
        self.generation += 1
        # a relocation name configured with set_relocated_name lives in the object, not the image
        self.rr_moved_name = None
        self._update_reloc()
        fresh = 0
        udf_groups = {}
        for ns in ('iso', 'joliet', 'udf'):
            for p, n in sorted(self.ns[ns].items()):
                if n.kind == 'file' and n.cid is not None and n.cid != 'catalog' and self.contents[n.cid].length == 0:
                    if ns == 'udf' and n.cid in udf_groups:
                        # UDF names of one (empty) file share a File Entry on disc: real link
                        # information that a reader recovers
                        n.cid = udf_groups[n.cid]
                        continue
                    fresh += 1
                    newcid = 'e%d.%d' % (self.generation, fresh)
                    self.contents[newcid] = Content(newcid, 0, b'')
                    if ns == 'udf':
                        udf_groups[n.cid] = newcid
                    n.cid = newcid
        for cid in [c for c in self.contents if c != 'catalog' and not self.names_of(c) and not self.boot_refs(c)]:
            del self.contents[cid]


def sha(data):
    return hashlib.sha1(data).hexdigest()
