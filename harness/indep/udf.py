"""Independent decoder for the UDF bridge (ECMA-167 / UDF 2.60) part of an image.

Written from the standard's layout only; shares no code with the library under
test.  ``decode(img)`` never raises on malformed input: everything wrong is
reported in ``UDFVolume.problems`` as ``(key, detail)`` using the fixed key
taxonomy documented in the harness design.  ``img`` only needs ``len()`` and
slicing; it is never copied or iterated, at most 1 MiB is sliced at a time and
file data is never read by decode() (only symlink and directory data are).

Public interface: decode(img) -> UDFVolume, read_file(img, node) -> bytes,
crc_ccitt(data) -> int, classes UDFVolume / UDFNode.

Conventions worth knowing (deliberate readings of the specification):
* ``present`` is True as soon as a BEA01 or NSR0x recognition descriptor is seen
  (otherwise a damaged sequence could never be reported as 'vrs').
* 'udf-vrs' extent-map entries cover BEA01/NSR0x/TEA01/BOOT2 sectors only, not
  the CD001 descriptors that precede them (those belong to the ISO decoder).
* extent-map ids: avdp '256'/'last'; VDS entries the descriptor name ('pvd',
  'iuvd', 'pd', 'lvd', 'usd', 'td'); 'lvid', 'lvid-td', 'fsd', 'fsd-td'.
* ``links`` only lists data extents shared by two or more paths; File Entries
  shared by several paths (also zero-length ones) are in info['fe_links'].
* A damaged anchor yields both the tag:*:avdp problem and anchor:256/anchor:last.
* 'fe:link-count' is reported (LINK_COUNT_STRICT): directories 1 + child
  directories, other entries the number of live FIDs naming the FE.  The raw
  list is always in info['link_count_mismatches'] as (fe_sector, found, expected).
* Extra keys of the 'decode:<where>' family are used for things the decoder
  does not support rather than guesses at: decode:block-size, decode:partition-map,
  decode:partition-ref, decode:ad-type (extended_ad), decode:ad-extent (sparse or
  continuation extents), decode:vds (foreign descriptor inside a VDS),
  decode:dir-size / decode:budget (work caps), decode:lvid.
* UDFNode has one extra attribute ``embedded`` (bytes when the FE embeds the
  data in its allocation-descriptor area, else None); read_file honours it.
* info['conventions'] records pycdlib's layout habits (partition start 257,
  partition end == last anchor sector) as booleans; they are not problems.
"""
import struct

SEC = 2048
CHUNK = 1 << 20                 # largest single slice ever taken from img
MAX_DIR_BYTES = 64 << 20        # cap on one directory's FID area
MAX_FIDS = 2000000              # overall work budget for the tree walk
MAX_VDS_SECTORS = 64
# Confirmed on pycdlib-generated images (see test_udf.py): file FE link count ==
# number of live FIDs naming it; directory FE link count == 1 + child dirs.
LINK_COUNT_STRICT = True

_DESC = {1: 'pvd', 2: 'avdp', 4: 'iuvd', 5: 'pd', 6: 'lvd', 7: 'usd', 8: 'td',
         9: 'lvid', 256: 'fsd', 257: 'fid', 261: 'fe', 266: 'fe'}
_VDS_DESCS = ('pvd', 'iuvd', 'pd', 'lvd', 'usd', 'td')
_KINDS = {4: 'dir', 5: 'file', 12: 'symlink'}

_CRC_TABLE = []
for _i in range(256):
    _c = _i << 8
    for _ in range(8):
        _c = ((_c << 1) ^ 0x1021) if _c & 0x8000 else (_c << 1)
    _CRC_TABLE.append(_c & 0xffff)


def crc_ccitt(data):
    """CRC-16/CCITT: poly 0x1021, init 0, no reflection, no final xor."""
    crc = 0
    for b in data:
        crc = ((crc << 8) & 0xffff) ^ _CRC_TABLE[(crc >> 8) ^ b]
    return crc


def _u16(b, o):
    return struct.unpack_from('<H', b, o)[0]


def _u32(b, o):
    return struct.unpack_from('<I', b, o)[0]


def _u64(b, o):
    return struct.unpack_from('<Q', b, o)[0]


def _timestamp(b):
    tz, year, mon, day, hour, minute, sec, centi, hus, us = struct.unpack('<HhBBBBBBBB', bytes(b[:12]))
    off = tz & 0xfff
    if off & 0x800:
        off -= 0x1000
    return (tz >> 12, off, year, mon, day, hour, minute, sec, centi, hus, us)


def _cs0(raw):
    """Decode an OSTA CS0 identifier (compression id + payload); None if malformed."""
    if not raw:
        return None
    if raw[0] == 8:
        return bytes(raw[1:]).decode('latin-1')
    if raw[0] == 16 and len(raw) % 2 == 1:
        return bytes(raw[1:]).decode('utf-16-be', 'surrogatepass')
    return None


def _dstring(field):
    """ECMA-167 1/7.2.12 dstring: last byte holds the used length."""
    used = field[-1]
    if used == 0 or used > len(field) - 1:
        return ''
    return _cs0(field[:used]) or ''


class UDFNode(object):
    __slots__ = ('kind', 'length', 'fe_block', 'extents', 'target', 'link_count',
                 'unique_id', 'name_raw', 'hidden', 'embedded')

    def __init__(self, **kw):
        self.target = None
        self.embedded = None       # bytes when the FE embeds the data (AD type 3)
        for k, v in kw.items():
            setattr(self, k, v)

    def __repr__(self):
        return 'UDFNode(%s len=%d fe=%d extents=%r target=%r links=%d)' % (
            self.kind, self.length, self.fe_block, self.extents, self.target, self.link_count)


class UDFVolume(object):
    def __init__(self):
        self.present = False
        self.problems = []
        self.tree = {}
        self.extent_map = []
        self.links = {}
        self.info = {}


class _FE(object):
    """Parsed File Entry (partition-relative)."""
    __slots__ = ('block', 'ftype', 'kind', 'length', 'link_count', 'unique_id', 'extents',
                 'embedded', 'times', 'parent_icb')


class _Stop(Exception):
    pass


class _Decoder(object):
    def __init__(self, img):
        self.img = img
        self.nsec = len(img) // SEC
        self.vol = UDFVolume()
        self.pstart = self.plen = None
        self._seen_problems = set()
        self._emap = {}            # (kind, start, end) -> set(ids)
        self._fes = {}             # partition block -> _FE or None
        self._budget = MAX_FIDS

    # ---- plumbing -------------------------------------------------------
    def problem(self, key, detail):
        if (key, detail) not in self._seen_problems:
            self._seen_problems.add((key, detail))
            self.vol.problems.append((key, detail))

    def emit(self, kind, ident, sector, nbytes=SEC):
        start = sector * SEC
        end = start + -(-nbytes // SEC) * SEC
        if nbytes > 0 and 0 <= start and end <= self.nsec * SEC:
            self._emap.setdefault((kind, start, end), set()).add(ident)

    def sector(self, n):
        if not 0 <= n < self.nsec:
            return b''
        return self.img[n * SEC:(n + 1) * SEC]

    def guard(self, where, fn, *args):
        try:
            return fn(*args)
        except _Stop:
            return None
        except Exception as exc:           # never let malformed input escape
            self.problem('decode:' + where, '%s: %s' % (type(exc).__name__, exc))
            return None

    def tag(self, buf, desc, idents, want_loc, where):
        """Validate a descriptor tag.  True when the identifier is the expected one
        (the body may then be parsed even if checksum/CRC/location are off)."""
        if len(buf) < 16:
            self.problem('tag:ident:' + desc, '%s: unreadable (%d bytes)' % (where, len(buf)))
            return False
        ident, _ver, cks, _res, _serial, crc, crclen, loc = struct.unpack_from('<HHBBHHHI', buf, 0)
        if ident not in idents:
            self.problem('tag:ident:' + desc, '%s: tag ident %d, expected %s' % (where, ident, '/'.join(map(str, idents))))
            return False
        if (sum(buf[0:4]) + sum(buf[5:16])) & 0xff != cks:
            self.problem('tag:checksum:' + desc, '%s: tag checksum %d does not match' % (where, cks))
        if 16 + crclen > len(buf):
            self.problem('tag:crc:' + desc, '%s: CRC length %d exceeds descriptor (%d bytes)' % (where, crclen, len(buf)))
        elif crc_ccitt(buf[16:16 + crclen]) != crc:
            self.problem('tag:crc:' + desc, '%s: CRC 0x%04x does not match body' % (where, crc))
        if loc != want_loc:
            self.problem('tag:location:' + desc, '%s: tag location %d, expected %d' % (where, loc, want_loc))
        return True

    # ---- volume recognition sequence ------------------------------------
    def vrs(self):
        seen = []
        for s in range(16, min(16 + 64, self.nsec)):
            hdr = self.img[s * SEC:s * SEC + 7]
            ident = bytes(hdr[1:6])
            if ident not in (b'CD001', b'BEA01', b'NSR02', b'NSR03', b'TEA01', b'BOOT2'):
                break
            if ident != b'CD001':
                seen.append((s, ident.decode('ascii'), hdr[0], hdr[6]))
        ids = [i for _, i, _, _ in seen]
        nsr = [i for i in ids if i.startswith('NSR')]
        if not nsr and 'BEA01' not in ids:
            return False
        self.vol.present = True
        for s, ident, typ, ver in seen:
            self.emit('udf-vrs', ident, s)
            if typ != 0 or ver != 1:
                self.problem('vrs', 'sector %d %s: type %d version %d, expected 0/1' % (s, ident, typ, ver))
        if 'BEA01' not in ids or not nsr or 'TEA01' not in ids:
            self.problem('vrs', 'recognition sequence %r lacks one of BEA01/NSR0x/TEA01' % (ids,))
        elif not ids.index('BEA01') < ids.index(nsr[0]) < ids.index('TEA01'):
            self.problem('vrs', 'recognition sequence out of order: %r' % (ids,))
        if len(nsr) > 1 or ids.count('BEA01') > 1 or ids.count('TEA01') > 1:
            self.problem('vrs', 'repeated recognition descriptors: %r' % (ids,))
        self.vol.info['nsr'] = nsr[0] if nsr else None
        return True

    # ---- anchors and volume descriptor sequences ------------------------
    def anchor(self, sector, which):
        before = len(self.vol.problems)
        buf = self.sector(sector)
        ok = self.tag(buf, 'avdp', (2,), sector, 'anchor at sector %d' % sector)
        if len(self.vol.problems) != before:
            self.problem('anchor:' + which, 'anchor at sector %d missing or invalid' % sector)
        if not ok:
            return None
        self.emit('udf-avdp', which, sector)
        mlen, mloc, rlen, rloc = struct.unpack_from('<IIII', buf, 16)
        return (mloc, mlen, rloc, rlen)

    def vds(self, which, loc, length):
        """Read one volume descriptor sequence; returns {desc: sector bytes}."""
        kind = 'udf-mainvds' if which == 'main' else 'udf-reservevds'
        found = {}
        if length % SEC or length == 0:
            self.problem('decode:vds', '%s VDS extent length %d is not a positive multiple of %d' % (which, length, SEC))
        for s in range(loc, loc + min(length // SEC, MAX_VDS_SECTORS)):
            buf = self.sector(s)
            if len(buf) < SEC:
                self.problem('decode:vds', '%s VDS sector %d outside the image' % (which, s))
                break
            ident = _u16(buf, 0)
            desc = _DESC.get(ident)
            if ident == 0 and not any(buf[:16]):
                break                       # unrecorded sector ends the sequence
            if desc not in _VDS_DESCS:
                self.problem('decode:vds', '%s VDS sector %d: unexpected tag ident %d' % (which, s, ident))
                continue
            self.tag(buf, desc, (ident,), s, '%s VDS sector %d (%s)' % (which, s, desc))
            self.emit(kind, desc, s)
            found.setdefault(desc, buf)
            if desc == 'td':
                break
        for desc in ('pvd', 'pd', 'lvd', 'td'):
            if desc not in found:
                self.problem('vds:missing:' + desc, '%s volume descriptor sequence has no %s' % (which, desc.upper()))
        out = {}
        if 'pd' in found:
            out['partition_number'] = _u16(found['pd'], 22)
            out['partition_start'], out['partition_length'] = struct.unpack_from('<II', found['pd'], 188)
        if 'lvd' in found:
            lvd = found['lvd']
            out['block_size'] = _u32(lvd, 212)
            out['fsd_length'], out['fsd_block'], out['fsd_partref'] = struct.unpack_from('<IIH', lvd, 248)
            out['map_table_length'], out['n_maps'] = struct.unpack_from('<II', lvd, 264)
            out['lvid_length'], out['lvid_location'] = struct.unpack_from('<II', lvd, 432)
            out['maps'] = bytes(lvd[440:440 + min(out['map_table_length'], SEC - 440)])
            out['logical_volume_identifier'] = _dstring(lvd[84:212])
        if 'pvd' in found:
            out['volume_identifier'] = _dstring(found['pvd'][24:56])
            out['volume_set_identifier'] = _dstring(found['pvd'][72:200])
        return out

    # ---- integrity descriptor -------------------------------------------
    def lvid(self, loc, length):
        info = self.vol.info
        buf = self.sector(loc) if length >= SEC else b''
        if not self.tag(buf, 'lvid', (9,), loc, 'LVID at sector %d' % loc):
            return
        self.emit('udf-lvid', 'lvid', loc)
        info['lvid_timestamp'] = _timestamp(buf[16:28])
        info['lvid_integrity_type'] = _u32(buf, 28)
        info['lvid_next_unique_id'] = _u64(buf, 40)
        nparts, liu = struct.unpack_from('<II', buf, 72)
        if nparts < 1 or 80 + nparts * 8 + liu > SEC:
            self.problem('decode:lvid', 'LVID partition count %d / impl-use length %d do not fit' % (nparts, liu))
            return
        sizes = struct.unpack_from('<%dI' % nparts, buf, 80 + nparts * 4)
        info['lvid_free'] = struct.unpack_from('<%dI' % nparts, buf, 80)
        info['lvid_sizes'] = sizes
        if self.plen is not None and sizes[0] != self.plen:
            self.problem('len:lvid-size', 'LVID size table says %d blocks, PD partition length is %d' % (sizes[0], self.plen))
        iu = 80 + nparts * 8
        if liu >= 46:
            info['lvid_files'], info['lvid_dirs'] = struct.unpack_from('<II', buf, iu + 32)
            info['lvid_min_read'], info['lvid_min_write'], info['lvid_max_write'] = struct.unpack_from('<HHH', buf, iu + 40)
        else:
            self.problem('decode:lvid', 'LVID implementation use too short (%d bytes)' % liu)
        td = self.sector(loc + 1)
        if self.tag(td, 'td', (8,), loc + 1, 'terminator after LVID at sector %d' % (loc + 1)):
            self.emit('udf-lvid-td', 'lvid-td', loc + 1)

    # ---- partition helpers ----------------------------------------------
    def in_partition(self, block, nblocks, what):
        if block < 0 or block + max(nblocks, 1) > self.plen:
            self.problem('len:partition', '%s: blocks %d..%d lie outside the partition (%d blocks)' % (
                what, block, block + max(nblocks, 1) - 1, self.plen))
            return False
        return True

    def read_extents(self, extents, length):
        """Concatenate absolute (sector, bytes) extents up to ``length`` bytes, clipped to the image."""
        out, left = [], length
        for sec, nbytes in extents:
            pos, end = sec * SEC, sec * SEC + min(nbytes, left)
            end = min(end, len(self.img))
            while pos < end:
                piece = self.img[pos:min(end, pos + CHUNK)]
                if not piece:
                    break
                out.append(bytes(piece))
                pos += len(piece)
            left -= min(nbytes, left)
            if left <= 0:
                break
        return b''.join(out)

    # ---- file entries ---------------------------------------------------
    def fe(self, block, where):
        if block in self._fes:
            return self._fes[block]
        self._fes[block] = None
        self._fes[block] = self.guard('fe', self._fe, block, where)
        return self._fes[block]

    def _fe(self, block, where):
        what = 'FE of %s at block %d' % (where, block)
        if not self.in_partition(block, 1, what):
            return None
        buf = self.sector(self.pstart + block)
        if not self.tag(buf, 'fe', (261, 266), block, what):
            return None
        ext = _u16(buf, 0) == 266
        fe = _FE()
        fe.block = block
        fe.ftype = buf[27]
        fe.kind = _KINDS.get(fe.ftype)
        fe.parent_icb = _u32(buf, 28)
        adtype = _u16(buf, 34) & 7
        fe.link_count = _u16(buf, 48)
        fe.length = _u64(buf, 56)
        if ext:
            tpos, uid_off, base = (80, 92, 116), 200, 216
        else:
            tpos, uid_off, base = (72, 84, 96), 160, 176
        fe.times = dict(zip(('access', 'modification', 'attribute'), (_timestamp(buf[p:p + 12]) for p in tpos)))
        fe.unique_id = _u64(buf, uid_off)
        l_ea, l_ad = struct.unpack_from('<II', buf, base - 8)
        fe.extents, fe.embedded = [], None
        if fe.kind is None:
            self.problem('fe:type', '%s: ICB file type %d is not 4/5/12' % (what, fe.ftype))
        if base + l_ea + l_ad > SEC:
            self.problem('len:alloc', '%s: L_EA %d + L_AD %d overrun the %d-byte block' % (what, l_ea, l_ad, SEC))
            l_ea = min(l_ea, SEC - base)
            l_ad = min(l_ad, SEC - base - l_ea)
        ads = buf[base + l_ea:base + l_ea + l_ad]
        if adtype == 3:
            fe.embedded = bytes(ads)
            if l_ad != fe.length:
                self.problem('len:alloc', '%s: embedded data is %d bytes, information length %d' % (what, l_ad, fe.length))
            return fe
        if adtype not in (0, 1):
            self.problem('decode:ad-type', '%s: allocation descriptor type %d not supported' % (what, adtype))
            return fe
        step = 8 if adtype == 0 else 16
        if l_ad % step:
            self.problem('len:alloc', '%s: L_AD %d is not a multiple of %d' % (what, l_ad, step))
        total = 0
        for off in range(0, l_ad - l_ad % step, step):
            raw, pos = struct.unpack_from('<II', ads, off)
            etype, nbytes = raw >> 30, raw & 0x3fffffff
            if nbytes == 0:
                break
            if etype != 0:
                self.problem('decode:ad-extent', '%s: extent type %d (sparse/continuation) not supported' % (what, etype))
                total += nbytes if etype != 3 else 0
                continue
            total += nbytes
            self.in_partition(pos, -(-nbytes // SEC), 'extent of %s' % where)
            if (self.pstart + pos) * SEC + nbytes <= len(self.img):
                fe.extents.append((self.pstart + pos, nbytes))
            else:
                self.problem('len:partition', 'extent of %s: block %d + %d bytes lies outside the image' % (where, pos, nbytes))
        if total != fe.length:
            self.problem('len:alloc', '%s: allocation descriptors cover %d bytes, information length %d' % (what, total, fe.length))
        return fe

    def symlink_target(self, data, where):
        parts, rooted, off = [], False, 0
        while off < len(data):
            if off + 4 > len(data):
                self.problem('symlink:format', '%s: truncated component header at %d' % (where, off))
                return None
            ctype, lci = data[off], data[off + 1]
            ident = data[off + 4:off + 4 + lci]
            if len(ident) != lci:
                self.problem('symlink:format', '%s: component at %d overruns the data' % (where, off))
                return None
            off += 4 + lci
            if ctype in (1, 2):
                if parts or rooted or (ctype == 2 and lci):
                    self.problem('symlink:format', '%s: misplaced root component' % where)
                rooted = True
            elif ctype in (3, 4):
                if lci:
                    self.problem('symlink:format', '%s: component type %d with identifier' % (where, ctype))
                parts.append('..' if ctype == 3 else '.')
            elif ctype == 5:
                name = _cs0(ident)
                if not name:
                    self.problem('symlink:format', '%s: name component has a malformed identifier %r' % (where, bytes(ident)))
                    return None
                parts.append(name)
            else:
                self.problem('symlink:format', '%s: unknown component type %d' % (where, ctype))
                return None
        if not parts and not rooted:
            self.problem('symlink:format', '%s: no path components' % where)
            return None
        return ('/' if rooted else '') + '/'.join(parts)

    # ---- directory tree -------------------------------------------------
    def node(self, path, fe, name_raw, hidden):
        node = UDFNode(kind=fe.kind or 'file', length=fe.length, fe_block=self.pstart + fe.block,
                       extents=list(fe.extents), link_count=fe.link_count, unique_id=fe.unique_id,
                       name_raw=name_raw, hidden=hidden, embedded=fe.embedded)
        self.vol.tree[path] = node
        self.emit('udf-fe', path, node.fe_block)
        for sec, nbytes in node.extents:
            self.emit('udf-fids' if node.kind == 'dir' else 'udf-data', path, sec, nbytes)
        self.vol.info['timestamps'][path] = fe.times
        if node.kind == 'symlink':
            if fe.length > CHUNK:
                self.problem('symlink:format', '%s: symlink data of %d bytes' % (path, fe.length))
            else:
                data = fe.embedded if fe.embedded is not None else self.read_extents(node.extents, fe.length)
                node.target = self.symlink_target(data, path)
        return node

    def walk(self, root_block):
        info = self.vol.info
        info['timestamps'] = {}
        self._refs, self._subdirs, self._dirs_seen, self._file_fids = {}, {}, set(), []
        root = self.fe(root_block, '/')
        if root is None:
            return
        if root.kind != 'dir':
            self.problem('fe:type', 'root FE at block %d has file type %d, expected 4' % (root_block, root.ftype))
            return
        self.node('/', root, b'', False)
        self._refs[root_block] = 1          # the root's own parent FID names it
        self._dirs_seen.add(root_block)
        stack = [('/', root, root_block)]
        while stack:
            path, fe, parent_block = stack.pop()
            children = self.guard('dir', self.directory, path, fe, parent_block) or []
            stack.extend(reversed(children))
        nfiles = len(self._file_fids)
        ndirs = sum(1 for n in self.vol.tree.values() if n.kind == 'dir')
        info['tree_files'], info['tree_dirs'] = nfiles, ndirs
        if 'lvid_files' in info:
            if info['lvid_files'] != nfiles:
                self.problem('count:files', 'LVID says %d files, tree has %d' % (info['lvid_files'], nfiles))
            if info['lvid_dirs'] != ndirs:
                self.problem('count:dirs', 'LVID says %d directories, tree has %d' % (info['lvid_dirs'], ndirs))
        mism = info['link_count_mismatches'] = []
        for block, fe in sorted((b, f) for b, f in self._fes.items() if f is not None and b in self._refs):
            want = 1 + self._subdirs.get(block, 0) if fe.kind == 'dir' else self._refs[block]
            if fe.link_count != want:
                mism.append((self.pstart + block, fe.link_count, want))
                if LINK_COUNT_STRICT:
                    # 'fe:link-count' is the one mechanism "a file with several names records 1";
                    # directories and any other value get keys of their own
                    key = 'fe:link-count' if (fe.kind != 'dir' and fe.link_count == 1 and want > 1) else 'fe:link-count:%s' % ('dir' if fe.kind == 'dir' else 'other')
                    self.problem(key, 'FE at block %d (%s) has link count %d, expected %d' % (
                        block, fe.kind, fe.link_count, want))

    def fid_block(self, extents, off):
        """Partition-relative block holding byte ``off`` of a directory's data."""
        for sec, nbytes in extents:
            if off < nbytes:
                return sec - self.pstart + off // SEC
            off -= nbytes
        return -1

    def directory(self, path, fe, parent_block):
        want = min(fe.length, MAX_DIR_BYTES)
        if fe.length > MAX_DIR_BYTES:
            self.problem('decode:dir-size', '%s: directory of %d bytes exceeds the decoder cap' % (path, fe.length))
        data = fe.embedded if fe.embedded is not None else self.read_extents(fe.extents, want)
        extents = fe.extents if fe.embedded is None else [(self.pstart + fe.block, SEC)]
        children, names, off, index = [], set(), 0, 0
        while off < len(data):
            self._budget -= 1
            if self._budget < 0:
                self.problem('decode:budget', 'more than %d FIDs; giving up' % MAX_FIDS)
                raise _Stop()
            where = '%s FID #%d at +%d' % (path, index, off)
            if len(data) - off < 38:
                self.problem('len:info', '%s: %d trailing bytes cannot hold a FID' % (where, len(data) - off))
                break
            if _u16(data, off) != 257:
                self.problem('tag:ident:fid', '%s: tag ident %d, expected 257' % (where, _u16(data, off)))
                break
            chars, lfi = data[off + 18], data[off + 19]
            liu = _u16(data, off + 36)
            flen = 4 * ((38 + liu + lfi + 3) // 4)
            if off + flen > len(data):
                self.problem('len:info', '%s: FID of %d bytes runs past the information length %d' % (where, flen, fe.length))
                break
            fid = data[off:off + flen]
            want_loc = self.fid_block(extents, off) if fe.embedded is None else fe.block
            self.tag(fid, 'fid', (257,), want_loc, where)
            icb_block, icb_part = struct.unpack_from('<IH', fid, 24)
            ident = fid[38 + liu:38 + liu + lfi]
            first, off, index = index == 0, off + flen, index + 1
            if first and not chars & 8:
                self.problem('fid:parent', '%s: first FID is not a parent entry' % where)
            if chars & 4:
                continue                    # deleted
            if chars & 8:
                if not first:
                    self.problem('fid:parent', '%s: parent entry is not the first FID' % where)
                elif icb_block != parent_block:
                    self.problem('fid:parent', '%s: parent ICB block %d, expected %d' % (where, icb_block, parent_block))
                if lfi:
                    self.problem('fid:parent', '%s: parent entry carries an identifier' % where)
                continue
            name = _cs0(ident)
            if name is None or name == '':
                self.problem('name:cs0', '%s: malformed CS0 identifier %r' % (where, bytes(ident[:16])))
                name = '�' + bytes(ident).decode('latin-1')
            child = path.rstrip('/') + '/' + name
            if bytes(ident) in names or child in self.vol.tree:
                self.problem('fid:dup', '%s: identifier %r occurs twice in %s' % (where, name, path))
                continue
            names.add(bytes(ident))
            if icb_part != 0:
                self.problem('decode:partition-ref', '%s: ICB partition reference %d' % (where, icb_part))
            cfe = self.fe(icb_block, child)
            if cfe is None:
                continue
            isdir = cfe.kind == 'dir'
            if bool(chars & 2) != isdir:
                self.problem('fe:type', '%s: FID directory bit %d but FE file type %d' % (where, (chars >> 1) & 1, cfe.ftype))
            if isdir:
                if icb_block in self._dirs_seen:
                    self.problem('cycle', '%s: directory FE block %d already visited' % (where, icb_block))
                    continue
                self._dirs_seen.add(icb_block)
                self._subdirs[fe.block] = self._subdirs.get(fe.block, 0) + 1
                children.append((child, cfe, fe.block))
            else:
                self._file_fids.append(child)
            self._refs[icb_block] = self._refs.get(icb_block, 0) + 1
            self.node(child, cfe, bytes(ident), bool(chars & 1))
        if off != fe.length:
            self.problem('len:info', '%s: FIDs cover %d bytes, information length is %d' % (path, off, fe.length))
        return children

    # ---- top level ------------------------------------------------------
    def run(self):
        if self.guard('vrs', self.vrs):
            self.guard('volume', self.volume)
            self.guard('finish', self.finish)
        return self.vol

    def volume(self):
        vol, info = self.vol, self.vol.info
        last = self.nsec - 1
        a1 = self.guard('anchor', self.anchor, 256, '256')
        a2 = self.guard('anchor', self.anchor, last, 'last') if last > 256 else None
        if last <= 256:
            self.problem('anchor:last', 'image of %d sectors has no room for a second anchor' % self.nsec)
        if a1 and a2 and a1 != a2:
            self.problem('anchor:mismatch', 'anchor 256 says %r, anchor %d says %r' % (a1, last, a2))
        anchor = a1 or a2
        if anchor is None:
            return vol
        info['main_vds'], info['reserve_vds'] = anchor[:2], anchor[2:]
        main = self.guard('vds', self.vds, 'main', anchor[0], anchor[1]) or {}
        reserve = self.guard('vds', self.vds, 'reserve', anchor[2], anchor[3]) or {}
        cmp_keys = ('partition_start', 'partition_length', 'fsd_block', 'fsd_length')
        if main and reserve and [main.get(k) for k in cmp_keys] != [reserve.get(k) for k in cmp_keys]:
            self.problem('vds:reserve-differs', 'main %r, reserve %r' % (
                [main.get(k) for k in cmp_keys], [reserve.get(k) for k in cmp_keys]))
        use = main if 'partition_start' in main and 'fsd_block' in main else reserve
        for k, v in use.items():
            if k != 'maps':
                info[k] = v
        if 'partition_start' not in use or 'fsd_block' not in use:
            return vol
        self.pstart, self.plen = use['partition_start'], use['partition_length']
        if self.pstart + self.plen > self.nsec:
            self.problem('len:partition', 'partition %d+%d exceeds the image (%d sectors)' % (self.pstart, self.plen, self.nsec))
        if use['block_size'] != SEC:
            self.problem('decode:block-size', 'logical block size %d not supported' % use['block_size'])
            return vol
        maps = use['maps']
        if use['n_maps'] != 1 or len(maps) < 6 or maps[0] != 1 or maps[1] != 6:
            self.problem('decode:partition-map', 'expected one type-1 partition map, got %d maps %r' % (use['n_maps'], maps[:8]))
        elif _u16(maps, 4) != use['partition_number']:
            self.problem('decode:partition-map', 'map names partition %d, PD is %d' % (_u16(maps, 4), use['partition_number']))
        info['conventions'] = {'partition_start_257': self.pstart == 257,
                               'partition_ends_at_last_anchor': self.pstart + self.plen == last}
        self.guard('lvid', self.lvid, use['lvid_location'], use['lvid_length'])
        root = self.guard('fsd', self.fsd, use['fsd_block'])
        if root is not None:
            self.guard('walk', self.walk, root)
        return vol

    def fsd(self, block):
        info = self.vol.info
        if not self.in_partition(block, 1, 'FSD'):
            return None
        buf = self.sector(self.pstart + block)
        if not self.tag(buf, 'fsd', (256,), block, 'FSD at block %d' % block):
            return None
        self.emit('udf-fsd', 'fsd', self.pstart + block)
        info['fsd_location'] = self.pstart + block
        info['fsd_timestamp'] = _timestamp(buf[16:28])
        info['fsd_logical_volume_identifier'] = _dstring(buf[112:240])
        info['file_set_identifier'] = _dstring(buf[304:336])
        td = self.sector(self.pstart + block + 1) if block + 1 < self.plen else b''
        if self.tag(td, 'td', (8,), block + 1, 'terminator after FSD at block %d' % (block + 1)):
            self.emit('udf-fsd-td', 'fsd-td', self.pstart + block + 1)
        _rlen, rblock, rpart = struct.unpack_from('<IIH', buf, 400)
        info['root_fe'] = self.pstart + rblock
        if rpart != 0:
            self.problem('decode:partition-ref', 'root ICB partition reference %d' % rpart)
        return rblock

    def finish(self):
        vol = self.vol
        for (kind, start, end), ids in sorted(self._emap.items(), key=lambda kv: (kv[0][1], kv[0][2], kv[0][0])):
            vol.extent_map.append((kind, min(ids), start, end))
            if kind == 'udf-data' and len(ids) > 1:
                vol.links[(start, end)] = sorted(ids)
        fe_links = {}
        for path, node in vol.tree.items():
            fe_links.setdefault(node.fe_block, []).append(path)
        vol.info['fe_links'] = dict((b, sorted(p)) for b, p in fe_links.items() if len(p) > 1)


def decode(img):
    dec = _Decoder(img)
    try:
        return dec.run()
    except Exception as exc:                # belt and braces; run() guards every stage
        dec.problem('decode:top', '%s: %s' % (type(exc).__name__, exc))
        return dec.vol


def read_file(img, node):
    """Return the node's data (extents concatenated, truncated to node.length)."""
    if node.embedded is not None:
        return node.embedded[:node.length]
    out, left = [], node.length
    for sec, nbytes in node.extents:
        pos, end = sec * SEC, sec * SEC + min(nbytes, left)
        while pos < end:
            piece = bytes(img[pos:min(end, pos + CHUNK)])
            if not piece:
                break
            out.append(piece)
            pos += len(piece)
        left -= min(nbytes, left)
        if left <= 0:
            break
    return b''.join(out)
