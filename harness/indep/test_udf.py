"""Self-test of the independent UDF decoder (harness/indep/udf.py).

Run:  cd /verif && PYTHONPATH=/repo:/verif /venv/bin/python harness/indep/test_udf.py
pycdlib is used here only to *generate* images; the decoder never imports it.
Exit status 0 when every check passes.
"""
import binascii
import io
import random
import shutil
import struct
import sys
import tempfile
import time

import pycdlib

from harness.indep import udf

SEC = 2048

# Problems the decoder reports on images that pycdlib produced from a legal API
# history, and which were analysed to be the library's fault, not the decoder's.
# (scenario label, problem key, explanation).  The checks below tolerate exactly
# these and say so; anything else on a generated image is a test failure.
KNOWN_LIBRARY_ISSUES = [
    ('hardlinks', 'fe:link-count',
     'add_hard_link(udf_old_path=, udf_new_path=) adds a second FID naming the same File Entry '
     'but leaves the FE File Link Count at 1 (ECMA-167 4/14.9.6: it is the number of FIDs '
     'identifying the FE, so it must be 2).'),
    ('over-4g-file', 'len:partition',
     'add_fp() of a file larger than 0xfffff800 bytes splits it into several ISO9660 extents with one '
     'inode each and then links the UDF File Entry to the LAST inode only: the UDF allocation '
     'descriptors start at the last ISO extent (4 GiB - 2 KiB into the file) and run past the end of '
     'the partition and of the image, so the UDF view of the file is wrong.'),
    ('nested', 'fid:parent',
     'every FID is created with ICB block 2 (the root FE) and the extent assignment pass never '
     'updates the ICB of *parent* FIDs, so in any directory at depth >= 2 the parent entry points '
     'to the root directory instead of the real parent (ECMA-167 4/8.6, UDF 2.3.4).'),
    ('corruption-base', 'fid:parent', 'same as above (/dir1/sub is at depth 2)'),
    ('symlink-root', 'symlink:format',
     "add_symlink(udf_target='/') records TWO root components (02 00 00 00 02 00 00 00): the target is "
     "split on '/' and each empty piece becomes a root component."),
]

FAILURES = []
NOTES = []


def fail(msg):
    FAILURES.append(msg)
    print('FAIL: ' + msg)


class Disk(object):
    """Slice-only view of an image, enforcing the decoder's access contract."""

    def __init__(self, data, length=None):
        self.data, self.length = data, len(data) if length is None else length
        self.biggest = 0

    def __len__(self):
        return self.length

    def __getitem__(self, key):
        if not isinstance(key, slice) or key.step not in (None, 1):
            raise TypeError('decoder must only take contiguous slices, got %r' % (key,))
        start, stop, _ = key.indices(self.length)
        self.biggest = max(self.biggest, stop - start)
        if stop - start > 4 << 20:
            raise ValueError('decoder sliced %d bytes at once' % (stop - start))
        return self.data[start:stop]


class SparseSink(object):
    """Write target that keeps only non-zero 32 KiB-aligned chunks (for > 4 GiB images)."""
    GRAIN = 32768
    mode = 'wb'

    def __init__(self):
        self.chunks, self.pos, self.size = {}, 0, 0
        self.zero = bytes(self.GRAIN)

    def write(self, data):
        view, pos = memoryview(data), self.pos
        off = 0
        while off < len(view):
            idx, inner = divmod(pos, self.GRAIN)
            n = min(self.GRAIN - inner, len(view) - off)
            piece = bytes(view[off:off + n])
            if piece.count(0) != n or idx in self.chunks:
                cur = bytearray(self.chunks.get(idx, self.zero))
                cur[inner:inner + n] = piece
                self.chunks[idx] = bytes(cur)
            off, pos = off + n, pos + n
        self.pos = pos
        self.size = max(self.size, pos)
        return len(data)

    def seek(self, off, whence=0):
        self.pos = off if whence == 0 else (self.pos + off if whence == 1 else self.size + off)
        return self.pos

    def tell(self):
        return self.pos

    def truncate(self, size=None):
        self.size = max(self.size, self.pos if size is None else size)

    def flush(self):
        pass

    def __len__(self):
        return self.size

    def __getitem__(self, key):
        start, stop, _ = key.indices(self.size)
        out = []
        while start < stop:
            idx, inner = divmod(start, self.GRAIN)
            n = min(self.GRAIN - inner, stop - start)
            out.append(self.chunks.get(idx, self.zero)[inner:inner + n])
            start += n
        return b''.join(out)


class PatternReader(object):
    """Read-only pseudo file of a given size: zeros except a marker every MiB."""

    mode = 'rb'

    def __init__(self, size):
        self.size, self.pos = size, 0

    @staticmethod
    def expect(offset, n):
        out = bytearray(n)
        first = -(-offset // (1 << 20)) * (1 << 20)
        for m in range(first, offset + n - 7, 1 << 20):
            out[m - offset:m - offset + 8] = struct.pack('<Q', m | 1 << 63)
        return bytes(out)

    def read(self, n=-1):
        n = self.size - self.pos if n < 0 else min(n, self.size - self.pos)
        out = self.expect(self.pos, n) if n else b''
        self.pos += n
        return out

    def seek(self, off, whence=0):
        self.pos = off if whence == 0 else (self.pos + off if whence == 1 else self.size + off)
        return self.pos

    def tell(self):
        return self.pos


class Builder(object):
    """Drives pycdlib and records the UDF tree we expect to find."""

    def __init__(self, **kw):
        self.iso = pycdlib.PyCdlib()
        self.rr = 'rock_ridge' in kw
        self.joliet = 'joliet' in kw
        self.iso.new(interchange_level=3, udf='2.60', **kw)
        self.n = 0
        self.want = {'/': ('dir', None)}
        self.isopath = {'/': ''}

    def _names(self, path, isdir):
        self.n += 1
        parent, leaf = path.rsplit('/', 1)
        base = ('D%06d' if isdir else 'F%06d') % self.n
        self.isopath[path] = self.isopath[parent or '/'] + '/' + base
        kw = {}
        if self.rr:
            kw['rr_name'] = base.lower()
        return self.isopath[path] + ('' if isdir else '.;1'), kw

    def file(self, path, data):
        iso_path, kw = self._names(path, False)
        if self.joliet:
            kw['joliet_path'] = self.isopath[path].lower()
        self.iso.add_fp(io.BytesIO(data), len(data), iso_path=iso_path, udf_path=path, **kw)
        self.want[path] = ('file', data)

    def big(self, path, size):
        iso_path, kw = self._names(path, False)
        self.iso.add_fp(PatternReader(size), size, iso_path=iso_path, udf_path=path, **kw)
        self.want[path] = ('big', size)

    def dir(self, path):
        iso_path, kw = self._names(path, True)
        if self.joliet:
            kw['joliet_path'] = self.isopath[path].lower()
        self.iso.add_directory(iso_path=iso_path, udf_path=path, **kw)
        self.want[path] = ('dir', None)

    def symlink(self, path, target):
        iso_path, kw = self._names(path, False)
        if self.rr:
            kw = {'rr_symlink_name': kw['rr_name'], 'rr_path': target}
        self.iso.add_symlink(symlink_path=iso_path, udf_symlink_path=path, udf_target=target, **kw)
        self.want[path] = ('symlink', target)

    def hardlink(self, old, new):
        self.iso.add_hard_link(udf_old_path=old, udf_new_path=new)
        self.want[new] = self.want[old]

    def rm_file(self, path):
        self.iso.rm_file(udf_path=path)
        del self.want[path]

    def rm_dir(self, path):
        self.iso.rm_directory(udf_path=path)
        del self.want[path]

    def image(self, sink=None):
        out = sink if sink is not None else io.BytesIO()
        self.iso.write_fp(out)
        self.iso.close()
        return out if sink is not None else out.getvalue()


def check(label, img, want, expect_links=None):
    """Decode a generated image and compare with the expected tree."""
    disk = img if isinstance(img, SparseSink) else Disk(img)
    t0 = time.time()
    vol = udf.decode(disk)
    took = time.time() - t0
    known = set(k for lab, k, _ in KNOWN_LIBRARY_ISSUES if lab == label)
    if not vol.present:
        return fail('%s: UDF not recognised' % label)
    for key, detail in vol.problems:
        if key in known:
            NOTES.append('%s: tolerated known library issue %s: %s' % (label, key, detail))
        else:
            fail('%s: unexpected problem %s: %s' % (label, key, detail))
    for key in known - set(k for k, _ in vol.problems):
        NOTES.append('%s: KNOWN_LIBRARY_ISSUES entry %s no longer triggers' % (label, key))
    if set(vol.tree) != set(want):
        fail('%s: tree paths differ: missing %r, extra %r' % (
            label, sorted(set(want) - set(vol.tree)), sorted(set(vol.tree) - set(want))))
    for path, (kind, payload) in sorted(want.items()):
        node = vol.tree.get(path)
        if node is None:
            continue
        if node.kind != ('file' if kind == 'big' else kind):
            fail('%s: %s is %s, expected %s' % (label, path, node.kind, kind))
        elif kind == 'file':
            got = udf.read_file(disk, node)
            if node.length != len(payload) or got != payload:
                fail('%s: %s data mismatch (length %d vs %d)' % (label, path, node.length, len(payload)))
        elif kind == 'big':
            if node.length != payload or sum(n for _, n in node.extents) != payload:
                fail('%s: %s length %d / extents %r, expected %d' % (label, path, node.length, node.extents, payload))
            off = 0
            for sec, nbytes in node.extents:       # sample head and tail of every extent
                for rel in (0, max(0, nbytes - 3 * SEC)):
                    n = min(3 * SEC, nbytes - rel)
                    if disk[sec * SEC + rel:sec * SEC + rel + n] != PatternReader.expect(off + rel, n):
                        fail('%s: %s extent at sector %d: data mismatch at +%d' % (label, path, sec, rel))
                off += nbytes
        elif kind == 'symlink' and node.target != payload:
            fail('%s: %s target %r, expected %r' % (label, path, node.target, payload))
        if path != '/':
            leaf = path.rsplit('/', 1)[1]
            enc = ('latin-1', 8) if all(ord(c) < 256 for c in leaf) else ('utf-16-be', 16)
            if node.name_raw not in (bytes([enc[1]]) + leaf.encode(enc[0]), b'\x10' + leaf.encode('utf-16-be')):
                fail('%s: %s raw identifier %r' % (label, path, node.name_raw))
        if set(vol.info['timestamps'].get(path, {})) != {'access', 'modification', 'attribute'}:
            fail('%s: %s has no timestamps' % (label, path))
    # extent map: inside the image, sector aligned, no overlaps
    prev_end, prev = 0, None
    for kind, ident, start, end in vol.extent_map:
        if start % SEC or end % SEC or not 0 <= start < end <= len(disk):
            fail('%s: bad extent %r' % (label, (kind, ident, start, end)))
        if start < prev_end:
            fail('%s: extent %r overlaps %r' % (label, (kind, ident, start, end), prev))
        prev_end, prev = end, (kind, ident, start, end)
    kinds = set(k for k, _, _, _ in vol.extent_map)
    for need in ('udf-vrs', 'udf-avdp', 'udf-mainvds', 'udf-reservevds', 'udf-lvid', 'udf-lvid-td',
                 'udf-fsd', 'udf-fsd-td', 'udf-fe', 'udf-fids'):
        if need not in kinds:
            fail('%s: extent map lacks %s' % (label, need))
    if sum(1 for k, _, _, _ in vol.extent_map if k == 'udf-avdp') != 2:
        fail('%s: expected two anchors in the extent map' % label)
    conv = vol.info.get('conventions', {})
    if not all(conv.values()) or not conv:
        fail('%s: pycdlib layout conventions do not hold: %r' % (label, conv))
    if expect_links is not None and sorted(vol.links.values()) != sorted(expect_links):
        fail('%s: links %r, expected %r' % (label, vol.links, expect_links))
    print('ok   %-18s %4d nodes, %7d sectors, decode %.3fs' % (label, len(vol.tree), len(disk) // SEC, took))
    return vol


# --------------------------------------------------------------------------
# 1. generated images
# --------------------------------------------------------------------------
def scenario_empty():
    b = Builder()
    return b.image(), b.want, None


def scenario_sizes():
    b = Builder(rock_ridge='1.09', joliet=3)
    rnd = random.Random(1)
    for size in (0, 1, 2047, 2048, 2049, 5 << 20):
        b.file('/f%d' % size, rnd.randbytes(size))
    return b.image(), b.want, None


def scenario_nested():
    b = Builder()
    path = ''
    for depth in range(5):
        path += '/level%d' % depth
        b.dir(path)
        b.file(path + '/file%d' % depth, b'depth %d\n' % depth * (depth + 1))
    b.dir('/level0/sibling')
    return b.image(), b.want, None


def scenario_manyfiles():
    b = Builder()
    b.dir('/many')
    for i in range(120):
        b.file('/many/' + ('%03d' % i) + 'x' * 57, b'%d' % i)
    return b.image(), b.want, None


def scenario_names():
    b = Builder()
    for i, name in enumerate(['caf\xe9', 'na\xefve \xfcber.txt', 'Привет',
                              '日本語.txt', 'mixed-\xe9-中', 'plain.txt', 'UPPER lower 123']):
        b.file('/' + name, name.encode('utf-8'))
    b.dir('/дир')
    b.file('/дир/файл', b'inner')
    return b.image(), b.want, None


def scenario_symlinks():
    b = Builder(rock_ridge='1.09')
    b.file('/foo', b'x')
    b.dir('/dir1')
    for i, target in enumerate(['foo', '/usr/bin', '..', '.', '../a', '../../a/b', './foo', 'dir1/../foo',
                                '/etc/путь', 'a' * 200 + '/' + 'b' * 200]):
        b.symlink('/sym%d' % i, target)
    b.symlink('/dir1/up', '../foo')
    return b.image(), b.want, None


def scenario_symlink_root():
    b = Builder()
    b.symlink('/toroot', '/')
    return b.image(), b.want, None


def scenario_hardlinks():
    b = Builder()
    b.file('/foo', b'hard link payload')
    b.dir('/d')
    b.hardlink('/foo', '/bar')
    b.hardlink('/foo', '/d/baz')
    b.file('/other', b'o')
    return b.image(), b.want, [['/bar', '/d/baz', '/foo']]


def scenario_removed():
    b = Builder(rock_ridge='1.09')
    b.dir('/keep')
    b.dir('/gone')
    b.dir('/keep/sub')
    for i in range(6):
        b.file('/keep/f%d' % i, b'data %d' % i * 500)
    b.file('/gone/inner', b'inner')
    b.symlink('/lnk', 'keep')
    b.rm_file('/keep/f1')
    b.rm_file('/keep/f4')
    b.rm_file('/gone/inner')
    b.rm_dir('/gone')
    b.rm_dir('/keep/sub')
    b.file('/late', b'added after removals')
    return b.image(), b.want, None


def scenario_big():
    """> 4 GiB image through a sparse sink: multi-extent files, offsets beyond 32 bits."""
    b = Builder()
    b.file('/small', b's')
    b.big('/huge1', (3 << 30) + 12345)        # 4 short_ads
    b.big('/huge2', (2 << 30) + (1 << 29))    # 3 short_ads, lies beyond the 4 GiB mark
    sink = b.image(SparseSink())
    return sink, b.want, None


def known_issue_over_4g():
    """One file just over the ISO9660 single-extent limit (see KNOWN_LIBRARY_ISSUES 'over-4g-file')."""
    size = 0xfffff800 + 4096
    b = Builder()
    b.big('/huge', size)
    sink = b.image(SparseSink())
    vol = udf.decode(sink)
    keys = set(k for k, _ in vol.problems)
    node = vol.tree.get('/huge')
    if keys - {'len:partition'} or node is None or node.length != size:
        return fail('over-4g-file: unexpected result %r %r' % (vol.problems, node))
    if 'len:partition' not in keys:
        NOTES.append('over-4g-file: KNOWN_LIBRARY_ISSUES entry len:partition no longer triggers')
        return None
    fe = sink[node.fe_block * SEC:(node.fe_block + 1) * SEC]
    l_ea = struct.unpack_from('<I', fe, 168)[0]
    ads = [struct.unpack_from('<II', fe, 176 + l_ea + o) for o in range(0, struct.unpack_from('<I', fe, 172)[0], 8)]
    marker = PatternReader.expect(0, 8)                    # the file's first eight bytes
    idx = next(i for i in sorted(sink.chunks) if marker in sink.chunks[i])
    data_start = (idx * SparseSink.GRAIN + sink.chunks[idx].index(marker)) // SEC
    NOTES.append('over-4g-file: tolerated known library issue len:partition: file of %d bytes really starts at sector %d, '
                 'but its FE short_ads are %r (partition-relative, partition start %d, length %d)' % (
                     size, data_start, ads, vol.info['partition_start'], vol.info['partition_length']))
    print('ok   over-4g-file (known library issue witnessed)')
    return None


def plain_iso():
    iso = pycdlib.PyCdlib()
    iso.new(interchange_level=3, joliet=3)
    iso.add_fp(io.BytesIO(b'x'), 1, iso_path='/FOO.;1', joliet_path='/foo')
    out = io.BytesIO()
    iso.write_fp(out)
    iso.close()
    vol = udf.decode(Disk(out.getvalue()))
    if vol.present or vol.problems or vol.tree or vol.extent_map or vol.links:
        fail('plain ISO: decoder claims UDF content: %r %r' % (vol.present, vol.problems))
    for junk in (b'', b'\0' * 100, b'\xff' * (40 * SEC)):
        vol = udf.decode(Disk(junk))
        if vol.present or vol.problems:
            fail('junk input: %r %r' % (vol.present, vol.problems))
    print('ok   plain ISO / junk -> not present')


# --------------------------------------------------------------------------
# 2. targeted corruptions
# --------------------------------------------------------------------------
def retag(img, off, size):
    """Recompute CRC (over the recorded CRC length) and checksum of the tag at ``off``."""
    crclen = struct.unpack_from('<H', img, off + 10)[0]
    struct.pack_into('<H', img, off + 8, udf.crc_ccitt(bytes(img[off + 16:off + 16 + min(crclen, size - 16)])))
    img[off + 4] = (sum(img[off:off + 4]) + sum(img[off + 5:off + 16])) & 0xff


def find_fid(img, dirnode, name_raw, parent=False):
    """Absolute byte offset and size of a FID inside a single-extent directory."""
    base = dirnode.extents[0][0] * SEC
    off = 0
    while off < dirnode.length:
        chars, lfi = img[base + off + 18], img[base + off + 19]
        liu = struct.unpack_from('<H', img, base + off + 36)[0]
        size = 4 * ((38 + liu + lfi + 3) // 4)
        if (parent and chars & 8) or (not parent and bytes(img[base + off + 38 + liu:base + off + 38 + liu + lfi]) == name_raw):
            return base + off, size
        off += size
    raise KeyError(name_raw)


def base_image():
    b = Builder(rock_ridge='1.09', joliet=3)
    b.file('/foo', b'x')
    b.dir('/dir1')
    b.dir('/dir1/sub')
    b.file('/dir1/bar', b'y' * 3000)
    b.symlink('/sym', 'foo')
    return b.image(), b.want


def corruptions(good, vol):
    """Yield (name, mutated image bytes, expected problem key)."""
    t = vol.tree
    fe = dict((p, n.fe_block * SEC) for p, n in t.items())
    ext = dict((k + ':' + i, s) for k, i, s, _ in vol.extent_map)
    nsec = len(good) // SEC

    def mut(fn, tags=()):
        img = bytearray(good)
        fn(img)
        for off, size in tags:
            retag(img, off, size)
        return bytes(img)

    def put(off, fmt, *vals):
        return lambda img: struct.pack_into(fmt, img, off, *vals)

    yield 'FE body byte flipped, CRC stale', mut(put(fe['/foo'] + 36, '<I', 77)), 'tag:crc:fe'
    yield 'FE tag location changed', mut(put(fe['/dir1/bar'] + 12, '<I', 99), [(fe['/dir1/bar'], SEC)]), 'tag:location:fe'
    yield 'FSD tag checksum changed', mut(lambda img: img.__setitem__(ext['udf-fsd:fsd'] + 4, img[ext['udf-fsd:fsd'] + 4] ^ 1)), 'tag:checksum:fsd'
    yield 'second anchor zeroed', mut(lambda img: img.__setitem__(slice((nsec - 1) * SEC, nsec * SEC), bytes(SEC))), 'anchor:last'
    yield 'first anchor zeroed', mut(lambda img: img.__setitem__(slice(256 * SEC, 257 * SEC), bytes(SEC))), 'anchor:256'
    yield 'anchors disagree', mut(put(256 * SEC + 28, '<I', 49), [(256 * SEC, SEC)]), 'anchor:mismatch'
    yield 'image truncated by one sector', good[:-SEC], 'anchor:last'
    pd = ext['udf-mainvds:pd']
    yield 'partition length grown (main PD)', mut(put(pd + 192, '<I', nsec), [(pd, SEC)]), 'len:partition'
    yield 'partition length grown (main PD) [reserve]', mut(put(pd + 192, '<I', nsec), [(pd, SEC)]), 'vds:reserve-differs'
    rp = ext['udf-reservevds:pvd']
    yield 'reserve PVD ident destroyed', mut(put(rp, '<H', 0x7777)), 'vds:missing:pvd'
    yield 'main TD ident destroyed', mut(put(ext['udf-mainvds:td'], '<H', 0x7777)), 'vds:missing:td'
    lv = ext['udf-lvid:lvid']
    yield 'LVID file count +1', mut(put(lv + 88 + 32, '<I', vol.info['lvid_files'] + 1), [(lv, SEC)]), 'count:files'
    yield 'LVID dir count +1', mut(put(lv + 88 + 36, '<I', vol.info['lvid_dirs'] + 1), [(lv, SEC)]), 'count:dirs'
    yield 'LVID size table changed', mut(put(lv + 84, '<I', vol.info['partition_length'] + 1), [(lv, SEC)]), 'len:lvid-size'
    foo_fid, foo_size = find_fid(good, t['/'], t['/foo'].name_raw)
    yield 'FID L_FI shortened', mut(put(foo_fid + 19, '<B', 0)), 'len:info'
    yield 'FID marked deleted', mut(put(foo_fid + 18, '<B', 4), [(foo_fid, foo_size)]), 'count:files'
    yield 'FID compression id 9', mut(put(foo_fid + 38, '<B', 9), [(foo_fid, foo_size)]), 'name:cs0'
    yield 'FID tag location changed', mut(put(foo_fid + 12, '<I', 1), [(foo_fid, foo_size)]), 'tag:location:fid'
    sym_fid, sym_size = find_fid(good, t['/'], t['/sym'].name_raw)
    yield 'two FIDs with the same name', mut(put(sym_fid + 38, '<4s', b'\x08foo'), [(sym_fid, sym_size)]), 'fid:dup'
    yield 'directory info length +4', mut(put(fe['/dir1'] + 56, '<Q', t['/dir1'].length + 4), [(fe['/dir1'], SEC)]), 'len:info'
    yield 'directory info length -4', mut(put(fe['/dir1'] + 56, '<Q', t['/dir1'].length - 4), [(fe['/dir1'], SEC)]), 'len:info'
    yield 'file info length +1', mut(put(fe['/dir1/bar'] + 56, '<Q', 3001), [(fe['/dir1/bar'], SEC)]), 'len:alloc'
    yield 'L_AD = 7', mut(put(fe['/dir1/bar'] + 172, '<I', 7), [(fe['/dir1/bar'], SEC)]), 'len:alloc'
    yield 'L_EA huge', mut(put(fe['/dir1/bar'] + 168, '<I', 4000), [(fe['/dir1/bar'], SEC)]), 'len:alloc'
    l_ea = struct.unpack_from('<I', good, fe['/dir1/bar'] + 168)[0]
    yield 'data extent outside partition', mut(put(fe['/dir1/bar'] + 176 + l_ea + 4, '<I', nsec + 5), [(fe['/dir1/bar'], SEC)]), 'len:partition'
    yield 'file FE type 5 -> 4', mut(put(fe['/foo'] + 27, '<B', 4), [(fe['/foo'], SEC)]), 'fe:type'
    yield 'file FE type 5 -> 7', mut(put(fe['/foo'] + 27, '<B', 7), [(fe['/foo'], SEC)]), 'fe:type'
    yield 'dir FE link count 9', mut(put(fe['/dir1'] + 48, '<H', 9), [(fe['/dir1'], SEC)]), 'fe:link-count'
    par_fid, par_size = find_fid(good, t['/dir1'], None, parent=True)
    yield 'parent FID loses parent bit', mut(put(par_fid + 18, '<B', 2), [(par_fid, par_size)]), 'fid:parent'
    yield 'parent FID points elsewhere', mut(put(par_fid + 24, '<I', t['/dir1'].fe_block - 257), [(par_fid, par_size)]), 'fid:parent'
    sub_fid, sub_size = find_fid(good, t['/dir1'], t['/dir1/sub'].name_raw)
    yield 'dir FID points to its own parent (cycle)', mut(put(sub_fid + 24, '<I', t['/dir1'].fe_block - 257), [(sub_fid, sub_size)]), 'cycle'
    yield 'dir FID points to the root (cycle)', mut(put(sub_fid + 24, '<I', t['/'].fe_block - 257), [(sub_fid, sub_size)]), 'cycle'
    sd = t['/sym'].extents[0][0] * SEC
    yield 'symlink component type 9', mut(put(sd, '<B', 9)), 'symlink:format'
    yield 'symlink component overruns', mut(put(sd + 1, '<B', 200)), 'symlink:format'
    yield 'TEA01 destroyed', mut(put(ext['udf-vrs:TEA01'] + 1, '<5s', b'XXXXX')), 'vrs'
    yield 'BEA01 -> NSR02 (NSR without BEA)', mut(put(ext['udf-vrs:BEA01'] + 1, '<5s', b'NSR02')), 'vrs'
    yield 'root ICB outside partition', mut(put(ext['udf-fsd:fsd'] + 404, '<I', 10 ** 6), [(ext['udf-fsd:fsd'], SEC)]), 'len:partition'
    yield 'LVD logical block size 512', mut(put(ext['udf-mainvds:lvd'] + 212, '<I', 512), [(ext['udf-mainvds:lvd'], SEC)]), 'decode:block-size'


def corruption_tests():
    good, want = base_image()
    vol = check('corruption-base', good, want)
    count = 0
    for name, bad, key in corruptions(good, vol):
        count += 1
        try:
            got = udf.decode(Disk(bad))
        except Exception as exc:        # the decoder promises never to raise
            fail('corruption %r: decode raised %s: %s' % (name, type(exc).__name__, exc))
            continue
        keys = [k for k, d in got.problems if (k, d) not in vol.problems]
        if key not in keys:
            fail('corruption %r: expected %s, got %r' % (name, key, got.problems))
    print('ok   %d targeted corruptions' % count)
    return good, vol


# --------------------------------------------------------------------------
# 3. fuzz
# --------------------------------------------------------------------------
def fuzz(good, vol, iterations=5000):
    rnd = random.Random(20261002)
    regions = [(s, e) for k, _, s, e in vol.extent_map if k != 'udf-data' or e - s <= SEC]
    img = bytearray(good)
    disk = Disk(img)
    slowest, detected = 0.0, 0
    for i in range(iterations):
        saved = []
        for _ in range(rnd.choice((1, 1, 1, 2, 3))):
            s, e = rnd.choice(regions)
            pos = s + (rnd.randrange(512) if rnd.random() < 0.7 else rnd.randrange(e - s))
            saved.append((pos, img[pos]))
            img[pos] = rnd.randrange(256) if rnd.random() < 0.5 else img[pos] ^ (1 << rnd.randrange(8))
        t0 = time.time()
        try:
            got = udf.decode(disk)
        except Exception as exc:
            fail('fuzz iteration %d (%r): decode raised %s: %s' % (i, saved, type(exc).__name__, exc))
            got = None
        took = time.time() - t0
        slowest = max(slowest, took)
        if took > 2.0:
            fail('fuzz iteration %d (%r): decode took %.1fs' % (i, saved, took))
        if got is not None:
            detected += got.problems != vol.problems or not got.present
            for key, detail in got.problems:
                if not isinstance(key, str) or not isinstance(detail, str):
                    fail('fuzz iteration %d: malformed problem %r' % (i, (key, detail)))
        for pos, old in reversed(saved):
            img[pos] = old
        if len(FAILURES) > 20:
            break
    if bytes(img) != good:
        fail('fuzz: image not restored')
    print('ok   fuzz: %d iterations, slowest decode %.3fs, %d mutations noticed' % (iterations, slowest, detected))


def main():
    started = time.time()
    scratch = tempfile.mkdtemp(prefix='udf-selftest-')   # nothing is written; kept for contract's sake
    try:
        for n in range(0, 5000, 97):
            data = random.Random(n).randbytes(n)
            if udf.crc_ccitt(data) != binascii.crc_hqx(data, 0):
                fail('crc_ccitt disagrees with binascii.crc_hqx on %d bytes' % n)
        if udf.crc_ccitt(b'123456789') != 0x31c3:
            fail('crc_ccitt check value')
        plain_iso()
        for label, fn in (('empty', scenario_empty), ('sizes', scenario_sizes), ('nested', scenario_nested),
                          ('manyfiles', scenario_manyfiles), ('names', scenario_names),
                          ('symlinks', scenario_symlinks), ('symlink-root', scenario_symlink_root),
                          ('hardlinks', scenario_hardlinks),
                          ('removed', scenario_removed), ('big-multi-extent', scenario_big)):
            try:
                img, want, links = fn()
            except Exception as exc:
                fail('%s: pycdlib could not build the image: %s: %s' % (label, type(exc).__name__, exc))
                continue
            check(label, img, want, links)
        known_issue_over_4g()
        good, vol = corruption_tests()
        if vol is not None:
            fuzz(good, vol)
    finally:
        shutil.rmtree(scratch, ignore_errors=True)
    for note in NOTES:
        print('note: ' + note)
    print('%s in %.1fs (%d failures)' % ('FAILED' if FAILURES else 'PASSED', time.time() - started, len(FAILURES)))
    return 1 if FAILURES else 0


if __name__ == '__main__':
    sys.exit(main())
