"""Independent decoder for the isohybrid system area (MBR, GPT, APM) of an ISO image.
Written from the on-disc layouts only; shares no code with the library under test.
Never raises on malformed input: problems are collected as (key, detail) tuples.

`img` is anything with len() and img[a:b] -> bytes; only small slices are taken.
"""
import struct
import zlib

LB = 512
MBR_HEADER = b'\x33\xed' + b'\x90' * 30
# Variant written when an Apple partition map is requested: APM block 0 ('ER', 2048-byte blocks)
MBR_HEADER_MAC = b'\x45\x52\x08\x00\x00\x00\x90\x90' + b'\x00' * 24
MAX_ARRAY = 1 << 20       # never slice more than this for a GPT partition array
MAX_APM = 64
MIRROR_FIELDS = ('disk_guid', 'first_usable', 'last_usable', 'num_parts', 'part_size', 'array_crc')


class Hybrid(object):
    def __init__(self):
        self.present = False
        self.problems = []
        self.mbr = {}
        self.gpt_primary = None
        self.gpt_backup = None
        self.apm = []
        self.apm_block_size = None
        self.extent_map = []

    def problem_keys(self):
        return sorted(set(k for k, _ in self.problems))

    def _p(self, key, detail=''):
        self.problems.append((key, detail))


def _chs(b):
    """3 packed bytes -> (head, sector, cylinder)."""
    return (b[0], b[1] & 0x3f, ((b[1] & 0xc0) << 2) | b[2])


def _decode_mbr(img, hy, sec0):
    n = len(img)
    parts = []
    for i in range(4):
        e = sec0[446 + 16 * i:462 + 16 * i]
        lba, cnt = struct.unpack_from('<II', e, 8)
        parts.append({'status': e[0], 'chs_start': _chs(e[1:4]), 'type': e[4],
                      'chs_end': _chs(e[5:8]), 'lba': lba, 'sectors': cnt,
                      'empty': e == b'\x00' * 16, 'raw': e})
    m = hy.mbr
    m['header'] = sec0[0:32]
    m['boot_rba_512'], m['rba_pad'], m['mbr_id'] = struct.unpack_from('<III', sec0, 432)
    m['parts'] = parts
    m['active_index'] = None
    m['geometry_heads'] = m['geometry_sectors'] = m['cylinders'] = None
    hy.extent_map.append(('mbr', 'mbr', 0, 512))

    if m['rba_pad'] != 0 or sec0[444:446] != b'\x00\x00':
        hy._p('mbr:reserved', 'bytes 436..439 / 444..445 not zero')
    rba = m['boot_rba_512']
    if rba % 4 or rba * LB >= n:
        hy._p('mbr:rba', 'boot image rba %d (512-byte units), image has %d' % (rba, n // LB))

    active = [i for i, p in enumerate(parts) if not p['empty'] and p['status'] == 0x80]
    if len(active) != 1:
        hy._p('mbr:active', '%d active partition entries' % len(active))
    if not active:
        return
    m['active_index'] = active[0]
    p = parts[active[0]]
    eh, es, ec = p['chs_end']
    H, S = eh + 1, es
    m['geometry_heads'], m['geometry_sectors'], m['cylinders'] = H, S, ec + 1
    if S == 0:
        hy._p('mbr:chs', 'end sector field is 0: no usable geometry')
    else:
        cyl_bytes = H * S * LB
        if n % cyl_bytes:
            hy._p('pad', 'image length %d is not a multiple of the cylinder size %d' % (n, cyl_bytes))
        cc = n // cyl_bytes
        want_end = (H - 1, S, (min(cc, 1024) - 1) & 0x3ff)
        off = p['lba']
        want_start = ((off // S) % H, off % S + 1, (off // (H * S)) & 0x3ff)
        if p['chs_end'] != want_end:
            hy._p('mbr:chs', 'end CHS %r, geometry implies %r' % (p['chs_end'], want_end))
        if p['chs_start'] != want_start:
            hy._p('mbr:chs', 'start CHS %r, lba %d implies %r' % (p['chs_start'], off, want_start))
    total = n // LB
    if p['lba'] >= total or p['lba'] + p['sectors'] != total:
        hy._p('mbr:size', 'active partition lba %d + %d sectors != image %d sectors'
              % (p['lba'], p['sectors'], total))


def _gpt_header(img, hy, lba, which):
    """Decode a GPT header at `lba`; None when the signature is absent."""
    n = len(img)
    if lba < 1 or (lba + 1) * LB > n:
        return None
    sec = bytes(img[lba * LB:(lba + 1) * LB])
    if len(sec) < LB or sec[0:8] != b'EFI PART':
        return None
    (rev, hsize, hcrc, resv, cur, bak, first, last, guid, elba, num, psize,
     acrc) = struct.unpack_from('<4sIII QQQQ 16s QII I', sec, 8)
    g = {'header_lba': lba, 'revision': rev, 'header_size': hsize, 'hdr_crc': hcrc,
         'current': cur, 'backup': bak, 'first_usable': first, 'last_usable': last,
         'disk_guid': guid, 'entries_lba': elba, 'num_parts': num, 'part_size': psize,
         'array_crc': acrc, 'crc_ok': False, 'array_crc_ok': False, 'parts': [],
         'array_raw': None}
    hy.extent_map.append(('gpt-hdr', which, lba * LB, lba * LB + LB))
    if rev != b'\x00\x00\x01\x00' or hsize != 92 or resv != 0:
        hy._p('gpt:hdr-fields', '%s: revision %s size %d reserved %d' % (which, rev.hex(), hsize, resv))
    if 92 <= hsize <= LB:
        calc = zlib.crc32(sec[0:16] + b'\x00\x00\x00\x00' + sec[20:hsize]) & 0xffffffff
        g['crc_ok'] = calc == hcrc
    if not g['crc_ok']:
        hy._p('gpt:hdr-crc', '%s header crc 0x%08x does not match' % (which, hcrc))
    alen = num * psize
    astart = elba * LB
    if psize < 128 or alen > MAX_ARRAY or astart + alen > n:
        hy._p('decode:gpt-array', '%s: %d entries of %d bytes at lba %d' % (which, num, psize, elba))
        hy._p('gpt:arr-crc', '%s partition array not readable' % which)
        return g
    arr = bytes(img[astart:astart + alen])
    g['array_raw'] = arr
    hy.extent_map.append(('gpt-array', which, astart, astart + alen))
    g['array_crc_ok'] = (zlib.crc32(arr) & 0xffffffff) == acrc
    if not g['array_crc_ok']:
        used = max([i + 1 for i in range(num) if arr[i * psize:(i + 1) * psize].strip(b'\x00')] or [0])
        hint = (zlib.crc32(arr[:used * psize]) & 0xffffffff) == acrc
        hy._p('gpt:arr-crc', '%s array crc 0x%08x does not match the %d*%d array bytes%s' % (
            which, acrc, num, psize, ' (it is the crc of the %d used entries only)' % used if hint else ''))
    for i in range(num):
        e = arr[i * psize:i * psize + 128]
        if e == b'\x00' * 128:
            continue
        f, l, attrs = struct.unpack_from('<QQQ', e, 32)
        name = e[56:128].decode('utf-16-le', 'replace').split('\x00')[0]
        g['parts'].append({'index': i, 'type_guid': e[0:16], 'unique_guid': e[16:32],
                           'first': f, 'last': l, 'attrs': attrs, 'name': name})
        if f > l or l > last:
            hy._p('gpt:part:%d:range' % i, '%s: first %d last %d, last usable %d' % (which, f, l, last))
    return g


def _decode_gpt(img, hy):
    last_lba = len(img) // LB - 1
    has_p = bytes(img[LB:LB + 8]) == b'EFI PART'
    has_b = last_lba > 1 and bytes(img[last_lba * LB:last_lba * LB + 8]) == b'EFI PART'
    if not (has_p or has_b):
        return
    pri = hy.gpt_primary = _gpt_header(img, hy, 1, 'primary')
    if pri is None:
        hy._p('gpt:sig', "no 'EFI PART' at lba 1 although a backup header exists")
    blba = last_lba
    if not has_b:
        # not where it must be; follow the primary's pointer to see whether it exists at all
        hy._p('gpt:backup-pos', 'no GPT header in the last 512-byte sector (lba %d)' % last_lba)
        blba = pri['backup'] if pri else -1
    bak = hy.gpt_backup = _gpt_header(img, hy, blba, 'backup') if blba > 1 else None
    if bak is None:
        hy._p('gpt:sig', 'no backup GPT header found')
    if pri is None or bak is None:
        return
    if pri['backup'] != last_lba:
        hy._p('gpt:backup-pos', 'primary says backup at lba %d, last sector is %d' % (pri['backup'], last_lba))
    for f in MIRROR_FIELDS:
        if pri[f] != bak[f]:
            fmt = (lambda v: v.hex()) if f == 'disk_guid' else repr
            hy._p('gpt:mirror:' + f, 'primary %s backup %s' % (fmt(pri[f]), fmt(bak[f])))
    if pri['current'] != 1 or pri['backup'] != bak['current'] or bak['backup'] != 1 \
            or bak['current'] != bak['header_lba']:
        hy._p('gpt:mirror:lbas', 'primary current/backup %d/%d, backup current/backup %d/%d (found at %d)'
              % (pri['current'], pri['backup'], bak['current'], bak['backup'], bak['header_lba']))
    if pri['array_raw'] is not None and bak['array_raw'] is not None and pri['array_raw'] != bak['array_raw']:
        a, b = pri['array_raw'], bak['array_raw']
        d = next((i for i in range(min(len(a), len(b))) if a[i] != b[i]), min(len(a), len(b)))
        hy._p('gpt:mirror:array', 'partition arrays differ from byte %d (entry %d, field offset %d)'
              % (d, d // max(pri['part_size'], 1), d % max(pri['part_size'], 1)))
    if bak['entries_lba'] * LB + bak['num_parts'] * bak['part_size'] != bak['header_lba'] * LB:
        hy._p('gpt:backup-pos', 'backup array (lba %d) does not end where the backup header (lba %d) starts'
              % (bak['entries_lba'], bak['header_lba']))


def _decode_apm(img, hy, mac_header):
    n = len(img)
    bs = None
    for cand in (2048, 512):
        if bytes(img[cand:cand + 4]) == b'PM\x00\x00':
            bs = cand
            break
    if bs is None:
        if mac_header:
            hy._p('apm:sig', "block 0 is 'ER' but no 'PM' entry at byte 512 or 2048")
        return
    hy.apm_block_size = bs
    if mac_header:
        b0 = struct.unpack_from('>H', bytes(img[2:4]))[0]
        if b0 != bs:
            hy._p('apm:count', "block 0 declares block size %d, entries found at %d granularity" % (b0, bs))
    first = bytes(img[bs:bs + 512])
    total = struct.unpack_from('>I', first, 4)[0]
    if total == 0 or total > MAX_APM:
        hy._p('apm:count', 'map entry count %d' % total)
        total = max(1, min(total, MAX_APM))
    for i in range(1, total + 1):
        off = i * bs
        e = bytes(img[off:off + 512])
        if len(e) < 512 or e[0:4] != b'PM\x00\x00':
            hy._p('apm:sig', 'entry %d at byte %d has no PM signature' % (i, off))
            continue
        cnt, start, count = struct.unpack_from('>III', e, 4)
        ent = {'index': i, 'map_count': cnt, 'start': start, 'count': count,
               'name': e[16:48].split(b'\x00')[0].decode('latin-1'),
               'type': e[48:80].split(b'\x00')[0].decode('latin-1'),
               'status': struct.unpack_from('>I', e, 88)[0]}
        hy.apm.append(ent)
        hy.extent_map.append(('apm', str(i), off, off + bs))
        if cnt != total:
            hy._p('apm:count', 'entry %d says %d map entries, entry 1 says %d' % (i, cnt, total))
        if count == 0 or (start + count) * bs > n:
            # 'apm:range' names the one mechanism "entries left at start 0 / count 0"
            hy._p('apm:range' if (start == 0 and count == 0) else 'apm:range:wrong', 'entry %d (%s/%s): start %d count %d in %d-byte blocks, image has %d'
                  % (i, ent['name'], ent['type'], start, count, bs, n // bs))
    nxt = (total + 1) * bs
    if bytes(img[nxt:nxt + 4]) == b'PM\x00\x00':
        hy._p('apm:count', 'a further PM entry follows the %d declared ones' % total)


def decode(img):
    hy = Hybrid()
    try:
        if len(img) < 512:
            return hy
        sec0 = bytes(img[0:512])
        sig = sec0[510:512] == b'\x55\xaa'
        hdr = sec0[0:32] in (MBR_HEADER, MBR_HEADER_MAC)
        if not hdr:
            return hy                  # some other (or no) MBR: not an isohybrid image
        if not sig:
            hy._p('mbr:sig', 'isohybrid header present but bytes 510..511 are %s' % sec0[510:512].hex())
        hy.present = sig
    except Exception as exc:           # pragma: no cover - defensive
        hy._p('decode:mbr', repr(exc))
        return hy
    for where, fn in (('mbr', lambda: _decode_mbr(img, hy, sec0)),
                      ('gpt', lambda: _decode_gpt(img, hy)),
                      ('apm', lambda: _decode_apm(img, hy, sec0[0:32] == MBR_HEADER_MAC))):
        try:
            fn()
        except Exception as exc:       # pragma: no cover - defensive
            hy._p('decode:' + where, repr(exc))
    return hy
