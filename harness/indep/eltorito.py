"""Independent El Torito decoder (oracle).  Written from the on-disc layout only;
shares no code with the library under test.  Never raises on malformed input:
problems are collected as (key, detail) tuples.

`img` is anything with len() and img[a:b] -> bytes (possibly a virtual disk):
only small slices are ever taken.
"""
import struct

SECTOR = 2048
ET_ID = b'EL TORITO SPECIFICATION'.ljust(32, b'\x00')
MAX_VD_SCAN = 256          # volume descriptors looked at before giving up
MAX_ENTRIES = 1 << 16      # hard stop for runaway catalogs
ZERO32 = b'\x00' * 32


class Entry(object):
    """Initial/default entry or section entry (same 32-byte layout)."""
    __slots__ = ('indicator', 'media', 'media_raw', 'load_segment', 'system_type',
                 'unused', 'sector_count', 'load_rba', 'selection_criteria_type',
                 'vendor', 'raw', 'offset')

    def __init__(self, raw, offset):
        raw = bytes(raw).ljust(32, b'\x00')[:32]
        (self.indicator, self.media_raw, self.load_segment, self.system_type,
         self.unused, self.sector_count, self.load_rba,
         self.selection_criteria_type) = struct.unpack_from('<BBHBBHIB', raw, 0)
        self.media = self.media_raw & 0x0f
        self.vendor = raw[13:32]
        self.raw = raw
        self.offset = offset

    def __repr__(self):
        return ('Entry(ind=0x%02x media=%d seg=0x%x sys=0x%02x count=%d rba=%d @%d)'
                % (self.indicator, self.media, self.load_segment, self.system_type,
                   self.sector_count, self.load_rba, self.offset))


class Section(object):
    __slots__ = ('header_indicator', 'platform_id', 'num_entries', 'id_string',
                 'entries', 'raw', 'offset')

    def __init__(self, raw, offset):
        raw = bytes(raw).ljust(32, b'\x00')[:32]
        (self.header_indicator, self.platform_id,
         self.num_entries) = struct.unpack_from('<BBH', raw, 0)
        self.id_string = raw[4:32]
        self.entries = []
        self.raw = raw
        self.offset = offset

    def __repr__(self):
        return ('Section(0x%02x platform=0x%02x n=%d entries=%r)'
                % (self.header_indicator, self.platform_id, self.num_entries, self.entries))


class ElTorito(object):
    def __init__(self):
        self.present = False
        self.br_sector = -1
        self.catalog_lba = -1
        self.problems = []
        self.validation = {}
        self.initial = None
        self.sections = []
        self.catalog_bytes = b''
        self.used_entries = 0
        self.extent_map = []

    def all_entries(self):
        out = [self.initial] if self.initial is not None else []
        for sec in self.sections:
            out.extend(sec.entries)
        return out

    def problem_keys(self):
        return sorted(set(k for k, _ in self.problems))

    def _p(self, key, detail=''):
        self.problems.append((key, detail))


def _find_boot_records(img, et):
    """Scan the volume descriptor set; return sectors of El Torito boot records."""
    n = len(img)
    found = []
    for sec in range(16, 16 + MAX_VD_SCAN):
        off = sec * SECTOR
        if off + SECTOR > n:
            break
        head = img[off:off + 72]
        if len(head) < 72 or head[1:6] != b'CD001':
            break
        if head[0] == 255:
            break
        if head[0] == 0 and head[6] == 1 and head[7:39] == ET_ID:
            found.append(sec)
    return found


def _check_entry(et, e, n, where):
    if e.indicator not in (0x88, 0x00):
        et._p('initial:indicator' if where == 'initial' else 'entry:indicator',
              '%s: 0x%02x' % (where, e.indicator))
    if e.media > 4:
        et._p('entry:media', '%s: media byte 0x%02x' % (where, e.media_raw))
    if e.unused != 0:
        et._p('entry:reserved', '%s: byte 5 = 0x%02x' % (where, e.unused))
    if e.load_rba * SECTOR >= n:
        et._p('entry:oob', '%s: load_rba %d >= %d sectors' % (where, e.load_rba, n // SECTOR))


def _decode_catalog(img, et, catalog_len):
    n = len(img)
    base = et.catalog_lba * SECTOR
    if et.catalog_lba < 16 or base + SECTOR > n:
        et._p('catalog:oob', 'catalog sector %d, image has %d sectors' % (et.catalog_lba, n // SECTOR))
        return
    state = {'short': False}

    def rd(idx):
        b = img[base + idx * 32:base + idx * 32 + 32]
        if len(b) < 32:
            state['short'] = True
            b = bytes(b).ljust(32, b'\x00')
        return bytes(b)

    # -- validation entry
    v = rd(0)
    et.validation = {'platform_id': v[1], 'id_string': v[4:28],
                     'checksum': struct.unpack_from('<H', v, 28)[0],
                     'header_id': v[0], 'raw': v, 'offset': base}
    if v[0] != 1:
        et._p('validation:header', 'header id 0x%02x' % v[0])
    if v[30:32] != b'\x55\xaa':
        et._p('validation:key', 'key bytes %s' % v[30:32].hex())
    if sum(struct.unpack('<16H', v)) & 0xffff:
        et._p('validation:checksum', 'word sum 0x%04x' % (sum(struct.unpack('<16H', v)) & 0xffff))
    if v[2:4] != b'\x00\x00':
        et._p('validation:reserved', 'bytes 2-3 = %s' % v[2:4].hex())

    # -- initial/default entry
    et.initial = Entry(rd(1), base + 32)
    _check_entry(et, et.initial, n, 'initial')

    # -- sections
    idx = 2
    final_seen = False
    while idx < MAX_ENTRIES and not state['short']:
        at_boundary = (idx * 32) % SECTOR == 0
        if final_seen and at_boundary:
            break                      # nothing more is declared; do not peek into foreign sectors
        raw = rd(idx)
        if raw == ZERO32:
            if et.sections and not final_seen:
                et._p('section:header', 'catalog ends after a 0x90 section (last header must be 0x91)')
            break
        if raw[0] not in (0x90, 0x91):
            if final_seen or et.sections:
                et._p('section:count', 'non-empty entry (first byte 0x%02x) at catalog offset %d after the '
                      'declared entries of the previous section' % (raw[0], idx * 32))
            else:
                et._p('section:header', 'indicator 0x%02x at catalog offset %d' % (raw[0], idx * 32))
            break
        if final_seen:
            et._p('section:header', 'section header 0x%02x follows a final (0x91) header' % raw[0])
        sec = Section(raw, base + idx * 32)
        et.sections.append(sec)
        final_seen = raw[0] == 0x91
        idx += 1
        for k in range(sec.num_entries):
            if idx >= MAX_ENTRIES:
                break
            eraw = rd(idx)
            if state['short']:
                break
            if eraw == ZERO32 or eraw[0] in (0x90, 0x91):
                et._p('section:count', 'section %d declares %d entries, %d present'
                      % (len(et.sections) - 1, sec.num_entries, k))
                break
            e = Entry(eraw, base + idx * 32)
            sec.entries.append(e)
            _check_entry(et, e, n, 'section %d entry %d' % (len(et.sections) - 1, k))
            idx += 1
    if idx >= MAX_ENTRIES:
        et._p('decode:catalog', 'more than %d entries' % MAX_ENTRIES)

    et.used_entries = idx
    used = idx * 32
    k = max(1, -(-used // SECTOR))
    if state['short'] or base + used > n:
        et._p('catalog:overflow', 'catalog entries run past the end of the image')
    elif catalog_len is not None and used > catalog_len:
        et._p('catalog:overflow', '%d entries need %d bytes, catalog extent has %d' % (idx, used, catalog_len))
    end = min(base + k * SECTOR, n)
    et.catalog_bytes = bytes(img[base:end])
    et.extent_map.append(('boot-catalog', 'catalog', base, base + k * SECTOR))


def decode(img, catalog_len=None):
    """Decode the El Torito structures of `img`.

    catalog_len: optional length in bytes of the extent the caller knows to be
    allocated for the catalog (e.g. from its directory record); when given,
    entries beyond it are reported as 'catalog:overflow'.  Without it only
    running off the image is reported.
    """
    et = ElTorito()
    try:
        brs = _find_boot_records(img, et)
    except Exception as exc:                      # pragma: no cover - defensive
        et._p('decode:vds', repr(exc))
        return et
    if not brs:
        return et
    et.present = True
    et.br_sector = brs[0]
    if len(brs) > 1:
        et._p('br:dup', 'El Torito boot records at sectors %r' % (brs,))
    if et.br_sector != 17:
        et._p('br:not-at-17', 'boot record at sector %d' % et.br_sector)
    try:
        br = img[et.br_sector * SECTOR:(et.br_sector + 1) * SECTOR]
        et.catalog_lba = struct.unpack_from('<I', br, 71)[0]
        et.extent_map.append(('boot-record', 'br', et.br_sector * SECTOR, (et.br_sector + 1) * SECTOR))
        _decode_catalog(img, et, catalog_len)
    except Exception as exc:                      # pragma: no cover - defensive
        et._p('decode:catalog', repr(exc))
    return et


def boot_info_table(img, file_start_byte, file_len):
    """The 56-byte boot info table at file offset 8..63, or None if the file is too short."""
    try:
        if file_len < 64 or file_start_byte < 0 or file_start_byte + 64 > len(img):
            return None
        b = bytes(img[file_start_byte:file_start_byte + 64])
        pvd, lba, flen, csum = struct.unpack_from('<IIII', b, 8)
        return {'pvd_lba': pvd, 'file_lba': lba, 'file_len': flen, 'checksum': csum,
                'reserved': b[24:64]}
    except Exception:
        return None


def boot_info_checksum(img, file_start_byte, file_len):
    """Sum mod 2**32 of the LE 32-bit words of the file from offset 64 to its end."""
    total = 0
    pos = file_start_byte + 64
    end = min(file_start_byte + file_len, len(img))
    chunk = 1 << 20
    while pos < end:
        b = bytes(img[pos:min(pos + chunk, end)])
        if not b:
            break
        pos += len(b)
        if len(b) % 4:
            b += b'\x00' * (4 - len(b) % 4)
        total = (total + sum(struct.unpack('<%dI' % (len(b) // 4), b))) & 0xffffffff
    return total
