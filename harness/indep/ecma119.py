"""Independent ECMA-119 (ISO9660) decoder.  Shares no code with pycdlib.

decode(img) -> Image
  img: anything with len() and slicing -> bytes.

Image:
  .problems      [(key, detail)]   structural rule violations (C03 taxonomy)
  .vds           [VD]              every volume descriptor in the set, in order
  .pvd           Volume            first primary descriptor's hierarchy
  .pvd_dups      [VD]              further primary descriptors
  .joliet        Volume | None     supplementary descriptor with a UCS-2 escape
  .enhanced      Volume | None     supplementary descriptor, version 2 (ISO9660:1999)
  .boot_records  [VD]
  .terminator_sector, .after_set_sector
  .space_size    declared volume size in sectors (from the first PVD)
  .extent_map    [(kind, id, start_byte, end_byte)]

Volume:
  .kind 'pvd'|'joliet'|'enhanced'; .vd; .encoding
  .tree  {path(str): Node}  ('/' is the root)
  .dirs  {path: DirInfo}
  .ptable_l / .ptable_m  [PTRec]
  .problems
Node: kind 'dir'|'file', path, name(str), ident(bytes), recs [Rec] (all records
  of a multi-extent file), extent, length (sum), hidden, flags, su (bytes of the
  first record's system-use area), su_offset (absolute), rec_offset (absolute)
"""
import struct

SECTOR = 2048


class Rec:
    __slots__ = ('offset', 'length', 'xattr_len', 'extent', 'data_length', 'date', 'flags',
                 'unit', 'gap', 'volseq', 'ident', 'su', 'su_offset', 'raw')


class Node:
    __slots__ = ('kind', 'path', 'name', 'ident', 'recs', 'extent', 'length', 'hidden',
                 'flags', 'su', 'su_offset', 'rec_offset', 'parent')

    def __repr__(self):
        return 'Node(%s %r ext=%d len=%d)' % (self.kind, self.path, self.extent, self.length)


class DirInfo:
    __slots__ = ('path', 'extent', 'data_length', 'records', 'dot', 'dotdot', 'parent_path')


class PTRec:
    __slots__ = ('index', 'ident', 'extent', 'parent', 'xattr_len', 'offset')


class VD:
    __slots__ = ('sector', 'type', 'version', 'raw', 'flags', 'escape')


class Volume:
    def __init__(self, kind, vd):
        self.kind = kind
        self.vd = vd
        self.problems = []
        self.tree = {}
        self.dirs = {}
        self.ptable_l = []
        self.ptable_m = []
        self.encoding = 'utf-16-be' if kind == 'joliet' else 'utf-8'
        self.fields = {}

    def prob(self, key, detail=''):
        self.problems.append((key, detail))

    def decode_name(self, ident):
        if self.kind == 'joliet':
            return ident.decode('utf-16-be', 'surrogatepass')
        return ident.decode('utf-8', 'surrogateescape')


class Image:
    def __init__(self):
        self.problems = []
        self.vds = []
        self.pvd = None
        self.pvd_dups = []
        self.joliet = None
        self.enhanced = None
        self.boot_records = []
        self.terminator_sector = None
        self.after_set_sector = None
        self.space_size = 0
        self.extent_map = []
        self.volumes = []

    def prob(self, key, detail=''):
        self.problems.append((key, detail))

    def all_problems(self):
        out = list(self.problems)
        for v in self.volumes:
            out.extend(('%s:%s' % (v.kind, k) if v.kind != 'pvd' else k, d) for k, d in v.problems)
        return out


def _both32(raw, off):
    le = struct.unpack_from('<L', raw, off)[0]
    be = struct.unpack_from('>L', raw, off + 4)[0]
    return le, be


def _both16(raw, off):
    le = struct.unpack_from('<H', raw, off)[0]
    be = struct.unpack_from('>H', raw, off + 2)[0]
    return le, be


def parse_record(raw, base_offset):
    """Parse one directory record from raw (which starts at the record)."""
    r = Rec()
    r.offset = base_offset
    r.length = raw[0]
    r.raw = bytes(raw[:r.length])
    r.xattr_len = raw[1]
    r.extent = _both32(raw, 2)
    r.data_length = _both32(raw, 10)
    r.date = bytes(raw[18:25])
    r.flags = raw[25]
    r.unit = raw[26]
    r.gap = raw[27]
    r.volseq = _both16(raw, 28)
    lfi = raw[32]
    r.ident = bytes(raw[33:33 + lfi])
    su_start = 33 + lfi
    if lfi % 2 == 0:
        su_start += 1
    r.su = bytes(raw[su_start:r.length])
    r.su_offset = base_offset + su_start
    return r, lfi


def cmp_93_key(ident, is_dir):
    """Sort key implementing ECMA-119 9.3 for file identifiers (names padded with
    spaces, extension padded with spaces, version descending)."""
    if is_dir:
        return (ident,)
    body, _, ver = ident.partition(b';')
    name, dot, ext = body.rpartition(b'.')
    if not dot:
        name, ext = body, b''
    try:
        v = int(ver) if ver else 0
    except ValueError:
        v = 0
    return (name, ext, -v)


def _padcmp(a, b):
    n = max(len(a), len(b))
    a = a.ljust(n, b' ')
    b = b.ljust(n, b' ')
    return (a > b) - (a < b)


def order_93(a, b):
    """-1/0/1 comparing two *file or directory identifiers* by 9.3 (both treated
    as file identifiers: name, extension, version)."""
    ba, _, va = a.partition(b';')
    bb, _, vb = b.partition(b';')
    na, da, ea = ba.rpartition(b'.')
    if not da:
        na, ea = ba, b''
    nb, db, eb = bb.rpartition(b'.')
    if not db:
        nb, eb = bb, b''
    c = _padcmp(na, nb)
    if c:
        return c
    c = _padcmp(ea, eb)
    if c:
        return c
    try:
        ia = int(va) if va else 0
        ib = int(vb) if vb else 0
    except ValueError:
        return (va > vb) - (va < vb)
    # descending version
    return (ia < ib) - (ia > ib)


def _read(img, start, length):
    if start < 0 or length < 0 or start + length > len(img):
        return None
    return img[start:start + length]


def decode(img, want_files=True):
    im = Image()
    n_sectors = len(img) // SECTOR
    if len(img) % SECTOR:
        im.prob('image:not-sector-multiple', 'length %d' % len(img))
    if n_sectors < 18:
        im.prob('vd:too-short', 'image has %d sectors' % n_sectors)
        return im
    # ---- volume descriptor set -------------------------------------------
    sector = 16
    seen_term = False
    while sector < n_sectors and sector < 16 + 64:
        raw = img[sector * SECTOR:(sector + 1) * SECTOR]
        if raw[1:6] != b'CD001':
            break
        vd = VD()
        vd.sector = sector
        vd.type = raw[0]
        vd.version = raw[6]
        vd.raw = raw
        vd.flags = raw[7]
        vd.escape = raw[88:120]
        im.vds.append(vd)
        kind = {0: 'vd-boot', 1: 'vd-pvd', 2: 'vd-svd', 3: 'vd-part', 255: 'vd-term'}.get(vd.type, 'vd-unknown')
        im.extent_map.append((kind, 'vd@%d' % sector, sector * SECTOR, (sector + 1) * SECTOR))
        sector += 1
        if vd.type == 255:
            seen_term = True
            im.terminator_sector = vd.sector
            # further terminators are legal (9.x allows several); stop at first
            # non-terminator
            nxt = img[sector * SECTOR:sector * SECTOR + 7] if sector < n_sectors else b''
            if not (nxt[1:6] == b'CD001' and nxt[0] == 255):
                break
    im.after_set_sector = sector
    if not im.vds:
        im.prob('vd:none', 'no CD001 descriptor at sector 16')
        return im
    if not seen_term:
        im.prob('vd:no-terminator', 'descriptor set does not end in a type-255 descriptor')
    if im.vds[0].type != 1:
        im.prob('vd:first-not-primary', 'sector 16 holds type %d' % im.vds[0].type)
    term_seen = False
    for vd in im.vds:
        if term_seen and vd.type != 255:
            im.prob('vd:after-terminator', 'type %d at sector %d' % (vd.type, vd.sector))
        if vd.type == 255:
            term_seen = True
            if vd.version != 1:
                im.prob('vd:version', 'terminator version %d' % vd.version)
            if any(vd.raw[7:]):
                im.prob('vd:terminator-nonzero', 'sector %d' % vd.sector)
        elif vd.type == 0:
            im.boot_records.append(vd)
            if vd.version != 1:
                im.prob('vd:version', 'boot record version %d' % vd.version)
        elif vd.type == 1:
            if vd.version != 1:
                im.prob('vd:version', 'primary version %d' % vd.version)
            if im.pvd is None:
                im.pvd = Volume('pvd', vd)
            else:
                im.pvd_dups.append(vd)
        elif vd.type == 2:
            esc = vd.escape.rstrip(b'\x00').rstrip(b' ')
            if esc in (b'%/@', b'%/C', b'%/E'):
                if vd.version != 1:
                    im.prob('vd:version', 'joliet version %d' % vd.version)
                if im.joliet is None:
                    im.joliet = Volume('joliet', vd)
                else:
                    im.prob('vd:dup-joliet', 'sector %d' % vd.sector)
            elif vd.version == 2:
                if im.enhanced is None:
                    im.enhanced = Volume('enhanced', vd)
                else:
                    im.prob('vd:dup-enhanced', 'sector %d' % vd.sector)
            else:
                im.prob('vd:unknown-svd', 'sector %d escape %r version %d' % (vd.sector, esc, vd.version))
        else:
            im.prob('vd:unknown-type', 'type %d sector %d' % (vd.type, vd.sector))
    if im.pvd is None:
        im.prob('vd:no-primary', '')
        return im
    for dup in im.pvd_dups:
        if dup.raw != im.pvd.vd.raw:
            im.prob('vd:dup-pvd-differs', 'sector %d' % dup.sector)
    im.volumes = [v for v in (im.pvd, im.joliet, im.enhanced) if v is not None]
    for vol in im.volumes:
        _decode_volume(img, im, vol, want_files)
    im.space_size = im.pvd.fields.get('space_size', 0)
    for vol in im.volumes:
        if vol.fields.get('space_size') != im.space_size:
            im.prob('vd:space-size-differs', '%s declares %r, pvd %r' % (vol.kind, vol.fields.get('space_size'), im.space_size))
    return im


def _decode_volume(img, im, vol, want_files):
    raw = vol.vd.raw
    f = vol.fields

    def both32(name, off):
        le, be = _both32(raw, off)
        if le != be:
            vol.prob('vd:both-endian:' + name, 'LE %d BE %d' % (le, be))
        f[name] = le
        return le

    def both16(name, off):
        le, be = _both16(raw, off)
        if le != be:
            vol.prob('vd:both-endian:' + name, 'LE %d BE %d' % (le, be))
        f[name] = le
        return le

    both32('space_size', 80)
    both16('set_size', 120)
    both16('seqnum', 124)
    bs = both16('block_size', 128)
    if bs != SECTOR:
        vol.prob('vd:block-size', str(bs))
    pt_size = both32('ptable_size', 132)
    f['l_loc'] = struct.unpack_from('<L', raw, 140)[0]
    f['l_opt'] = struct.unpack_from('<L', raw, 144)[0]
    f['m_loc'] = struct.unpack_from('>L', raw, 148)[0]
    f['m_opt'] = struct.unpack_from('>L', raw, 152)[0]
    f['sys_id'] = raw[8:40]
    f['vol_id'] = raw[40:72]
    f['dates'] = {'creation': raw[813:830], 'modification': raw[830:847],
                  'expiration': raw[847:864], 'effective': raw[864:881]}
    f['fs_version'] = raw[881]
    expected_fsv = 2 if vol.kind == 'enhanced' else 1
    if raw[881] != expected_fsv:
        vol.prob('vd:fs-version', str(raw[881]))
    f['xa'] = raw[883 + 141:883 + 149] == b'CD-XA001'
    space = f['space_size']
    if space * SECTOR > len(img):
        vol.prob('vd:space-beyond-image', 'declares %d sectors, image has %d' % (space, len(img) // SECTOR))
    # ---- root record -------------------------------------------------------
    rootraw = raw[156:190]
    if rootraw[0] != 34:
        vol.prob('vd:root-record-length', str(rootraw[0]))
    root, lfi = parse_record(bytes(rootraw) + b'\x00' * 4, vol.vd.sector * SECTOR + 156)
    if root.extent[0] != root.extent[1] or root.data_length[0] != root.data_length[1]:
        vol.prob('vd:both-endian:root', '')
    if not root.flags & 2:
        vol.prob('vd:root-not-dir', '')
    if root.ident != b'\x00':
        vol.prob('vd:root-ident', repr(root.ident))
    # ---- directory hierarchy -----------------------------------------------
    rootnode = Node()
    rootnode.kind = 'dir'
    rootnode.path = '/'
    rootnode.name = ''
    rootnode.ident = b'\x00'
    rootnode.recs = [root]
    rootnode.extent = root.extent[0]
    rootnode.length = root.data_length[0]
    rootnode.hidden = False
    rootnode.flags = root.flags
    rootnode.su = b''
    rootnode.su_offset = 0
    rootnode.rec_offset = root.offset
    rootnode.parent = None
    vol.tree['/'] = rootnode
    seen_extents = {}
    queue = [rootnode]
    tag = {'pvd': 'iso', 'joliet': 'joliet', 'enhanced': 'enh'}[vol.kind]
    while queue:
        dnode = queue.pop(0)
        if dnode.extent in seen_extents:
            vol.prob('dr:dir-extent-reused', '%s and %s both at extent %d' % (dnode.path, seen_extents[dnode.extent], dnode.extent))
            continue
        seen_extents[dnode.extent] = dnode.path
        _decode_dir(img, im, vol, dnode, queue, tag)
    # ---- path tables -------------------------------------------------------
    _decode_path_tables(img, im, vol, pt_size, tag)
    # ---- file data extents -------------------------------------------------
    if want_files:
        for path, node in vol.tree.items():
            if node.kind != 'file':
                continue
            for r in node.recs:
                ln = r.data_length[0]
                if ln == 0:
                    continue
                start = r.extent[0] * SECTOR
                end = start + ((ln + SECTOR - 1) // SECTOR) * SECTOR
                if r.extent[0] + (ln + SECTOR - 1) // SECTOR > space:
                    vol.prob('dr:file-beyond-volume', '%s extent %d len %d space %d' % (path, r.extent[0], ln, space))
                im.extent_map.append(('%s-data' % tag, path, start, end))


def _decode_dir(img, im, vol, dnode, queue, tag):
    info = DirInfo()
    info.path = dnode.path
    info.extent = dnode.extent
    info.data_length = dnode.length
    info.records = []
    info.dot = info.dotdot = None
    info.parent_path = dnode.parent.path if dnode.parent is not None else '/'
    vol.dirs[dnode.path] = info
    if dnode.length % SECTOR or dnode.length == 0:
        vol.prob('dr:dir-length', '%s length %d' % (dnode.path, dnode.length))
    data = _read(img, dnode.extent * SECTOR, ((dnode.length + SECTOR - 1) // SECTOR) * SECTOR)
    if data is None:
        vol.prob('dr:dir-beyond-image', '%s extent %d length %d' % (dnode.path, dnode.extent, dnode.length))
        return
    im.extent_map.append(('%s-dir' % tag, dnode.path, dnode.extent * SECTOR, dnode.extent * SECTOR + len(data)))
    pos = 0
    recs = []
    last_used_sector = 0
    while pos < len(data):
        ln = data[pos]
        if ln == 0:
            # rest of this sector must be zero
            nxt = (pos // SECTOR + 1) * SECTOR
            if any(data[pos:nxt]):
                vol.prob('dr:garbage-after-records', '%s at %d' % (dnode.path, pos))
            pos = nxt
            continue
        if pos // SECTOR != (pos + ln - 1) // SECTOR:
            vol.prob('dr:straddle', '%s record at %d len %d' % (dnode.path, pos, ln))
            break
        if ln % 2:
            vol.prob('dr:odd-length', '%s record at %d len %d' % (dnode.path, pos, ln))
        if ln < 34:
            vol.prob('dr:too-short', '%s record at %d len %d' % (dnode.path, pos, ln))
            break
        r, lfi = parse_record(data[pos:pos + ln], dnode.extent * SECTOR + pos)
        if 33 + lfi + (1 - lfi % 2) > ln:
            vol.prob('dr:len-mismatch', '%s record at %d len %d len_fi %d' % (dnode.path, pos, ln, lfi))
            break
        if r.extent[0] != r.extent[1]:
            vol.prob('dr:both-endian:extent', '%s %r' % (dnode.path, r.ident))
        if r.data_length[0] != r.data_length[1]:
            vol.prob('dr:both-endian:length', '%s %r' % (dnode.path, r.ident))
        if r.volseq[0] != r.volseq[1]:
            vol.prob('dr:both-endian:volseq', '%s %r' % (dnode.path, r.ident))
        if lfi == 0:
            vol.prob('dr:empty-ident', '%s at %d' % (dnode.path, pos))
        recs.append(r)
        last_used_sector = pos // SECTOR
        pos += ln
    info.records = recs
    if recs and (last_used_sector + 1) * SECTOR < len(data):
        # trailing completely unused sectors: legal (zero padded) but recorded
        vol.fields.setdefault('dir_trailing_empty', []).append(dnode.path)
    if len(recs) < 2:
        vol.prob('dr:dot', '%s has %d records' % (dnode.path, len(recs)))
        return
    dot, dotdot = recs[0], recs[1]
    info.dot, info.dotdot = dot, dotdot
    if dot.ident != b'\x00' or not dot.flags & 2:
        vol.prob('dr:dot', '%s first record ident %r' % (dnode.path, dot.ident))
    else:
        if dot.extent[0] != dnode.extent:
            vol.prob('dr:dot', '%s "." extent %d != %d' % (dnode.path, dot.extent[0], dnode.extent))
        if dot.data_length[0] != dnode.length:
            vol.prob('dr:dot-length', '%s "." length %d != %d' % (dnode.path, dot.data_length[0], dnode.length))
    if dotdot.ident != b'\x01' or not dotdot.flags & 2:
        vol.prob('dr:dotdot', '%s second record ident %r' % (dnode.path, dotdot.ident))
    else:
        parent = dnode.parent if dnode.parent is not None else dnode
        if dotdot.extent[0] != parent.extent:
            vol.prob('dr:dotdot', '%s ".." extent %d != parent %d' % (dnode.path, dotdot.extent[0], parent.extent))
        if dotdot.data_length[0] != parent.length:
            vol.prob('dr:dotdot-length', '%s ".." length %d != parent %d' % (dnode.path, dotdot.data_length[0], parent.length))
    # children
    prev = None
    i = 2
    entries = []
    while i < len(recs):
        r = recs[i]
        group = [r]
        while r.flags & 0x80 and i + 1 < len(recs) and recs[i + 1].ident == r.ident:
            i += 1
            r = recs[i]
            group.append(r)
        if group[-1].flags & 0x80:
            vol.prob('dr:multi-extent-unterminated', '%s %r' % (dnode.path, r.ident))
        entries.append(group)
        i += 1
    names_seen = {}
    for group in entries:
        r = group[0]
        if r.ident in (b'\x00', b'\x01'):
            vol.prob('dr:dot-repeated', '%s' % dnode.path)
            continue
        assoc = bool(r.flags & 4)
        if r.ident in names_seen and not assoc and not names_seen[r.ident]:
            vol.prob('dr:dup-ident', '%s %r' % (dnode.path, r.ident))
        names_seen[r.ident] = assoc
        if prev is not None:
            if prev.ident > r.ident:
                vol.prob('sort:unsorted', '%s: %r before %r' % (dnode.path, prev.ident, r.ident))
            elif vol.kind != 'joliet' and order_93(prev.ident, r.ident) > 0:
                vol.fields.setdefault('sort_93', []).append((dnode.path, prev.ident, r.ident))
        prev = r
        node = Node()
        node.kind = 'dir' if r.flags & 2 else 'file'
        try:
            name = vol.decode_name(r.ident)
        except UnicodeError:
            name = r.ident.decode('latin-1')
            vol.prob('dr:ident-encoding', '%s %r' % (dnode.path, r.ident))
        node.name = name
        node.ident = r.ident
        node.path = (dnode.path if dnode.path != '/' else '') + '/' + name
        node.recs = group
        node.extent = r.extent[0]
        node.length = sum(g.data_length[0] for g in group)
        node.hidden = bool(r.flags & 1)
        node.flags = r.flags
        node.su = r.su
        node.su_offset = r.su_offset
        node.rec_offset = r.offset
        node.parent = dnode
        if node.path in vol.tree:
            continue
        vol.tree[node.path] = node
        if node.kind == 'dir':
            if len(group) > 1:
                vol.prob('dr:multi-extent-dir', node.path)
            queue.append(node)


def _decode_path_tables(img, im, vol, pt_size, tag):
    f = vol.fields
    tables = {}
    for which, loc, fmt in (('l', f['l_loc'], '<'), ('m', f['m_loc'], '>')):
        data = _read(img, loc * SECTOR, pt_size)
        if data is None:
            vol.prob('pt:beyond-image', '%s table at %d size %d' % (which, loc, pt_size))
            tables[which] = None
            continue
        nsec = (pt_size + SECTOR - 1) // SECTOR
        im.extent_map.append(('%s-ptable-%s' % (tag, which), which, loc * SECTOR, (loc + nsec) * SECTOR))
        recs = []
        pos = 0
        idx = 1
        ok = True
        while pos < pt_size:
            ldi = data[pos]
            if ldi == 0:
                vol.prob('pt:size', '%s table: zero-length identifier at %d of %d' % (which, pos, pt_size))
                ok = False
                break
            rl = 8 + ldi + (ldi % 2)
            if pos + rl > pt_size:
                vol.prob('pt:size', '%s table: record at %d runs past declared size %d' % (which, pos, pt_size))
                ok = False
                break
            p = PTRec()
            p.index = idx
            p.offset = pos
            p.xattr_len = data[pos + 1]
            p.extent = struct.unpack_from(fmt + 'L', data, pos + 2)[0]
            p.parent = struct.unpack_from(fmt + 'H', data, pos + 6)[0]
            p.ident = bytes(data[pos + 8:pos + 8 + ldi])
            recs.append(p)
            idx += 1
            pos += rl
        # bytes after the declared size up to the sector end should be zero
        tail = _read(img, loc * SECTOR + pt_size, nsec * SECTOR - pt_size)
        if tail is not None and any(tail):
            vol.prob('pt:size', '%s table: non-zero bytes after declared size' % which)
        tables[which] = recs if ok else None
        if which == 'l':
            vol.ptable_l = recs
        else:
            vol.ptable_m = recs
    lt, mt = tables.get('l'), tables.get('m')
    if lt is not None and mt is not None:
        if len(lt) != len(mt):
            vol.prob('pt:le-be', 'L has %d records, M has %d' % (len(lt), len(mt)))
        else:
            for a, b in zip(lt, mt):
                if (a.ident, a.extent, a.parent, a.xattr_len) != (b.ident, b.extent, b.parent, b.xattr_len):
                    vol.prob('pt:le-be', 'record %d differs: L %r/%d/%d M %r/%d/%d' % (a.index, a.ident, a.extent, a.parent, b.ident, b.extent, b.parent))
                    break
    table = lt if lt is not None else mt
    if table is None:
        return
    # expected table: BFS by level; within a level ordered by parent number
    # then identifier
    expected = []
    dirs = {p: n for p, n in vol.tree.items() if n.kind == 'dir'}
    children = {}
    for p, n in dirs.items():
        if n.parent is not None:
            children.setdefault(n.parent.path, []).append(n)
    level = [(dirs['/'], 1)]
    number = {'/': 1}
    expected.append((b'\x00', dirs['/'].extent, 1, '/'))
    nextnum = 2
    while level:
        nxt = []
        for dn, dnum in level:
            for c in sorted(children.get(dn.path, []), key=lambda c: c.ident):
                expected.append((c.ident, c.extent, dnum, c.path))
                number[c.path] = nextnum
                nxt.append((c, nextnum))
                nextnum += 1
        level = nxt
    got = [(p.ident, p.extent, p.parent) for p in table]
    exp = [(e[0], e[1], e[2]) for e in expected]
    exp_size = sum(8 + len(e[0]) + len(e[0]) % 2 for e in expected)
    if exp_size != pt_size:
        vol.prob('pt:size', 'declared %d, hierarchy needs %d' % (pt_size, exp_size))
    if got != exp:
        if sorted(g[0] for g in got) != sorted(e[0] for e in exp):
            vol.prob('pt:records', 'table lists %d dirs, hierarchy has %d' % (len(got), len(exp)))
        elif [g[0] for g in got] != [e[0] for e in exp]:
            vol.prob('pt:order', 'identifier order differs from level/parent/name order')
        elif [g[2] for g in got] != [e[2] for e in exp]:
            bad = next(i for i in range(len(got)) if got[i][2] != exp[i][2])
            vol.prob('pt:parent', 'record %d %r parent %d expected %d' % (bad + 1, got[bad][0], got[bad][2], exp[bad][2]))
        else:
            bad = next(i for i in range(len(got)) if got[i][1] != exp[i][1])
            vol.prob('pt:extent', 'record %d %r extent %d expected %d' % (bad + 1, got[bad][0], got[bad][1], exp[bad][1]))
    # number of path-table sectors pycdlib reserves is checked by the allocation
    # oracle (C04), not here.


def read_file(img, node):
    out = []
    for r in node.recs:
        ln = r.data_length[0]
        start = (r.extent[0] + r.xattr_len) * SECTOR
        out.append(img[start:start + ln])
    return b''.join(out)
