"""Self-test of the independent SUSP / Rock Ridge decoder (harness/indep/susp.py).

Run:  cd /verif && PYTHONPATH=/repo:/verif /venv/bin/python harness/indep/test_susp.py
pycdlib is used here only to *generate* images; the decoder never imports it.
Exit status 0 when every check passes.
"""
import io
import random
import struct
import sys
import time

import pycdlib

from harness.indep import ecma119
from harness.indep import susp

SEC = 2048
VERSIONS = ('1.09', '1.10', '1.12')

# Problems the decoder reports on images pycdlib produced from a legal API history and that were
# analysed to be the library's fault.  (scenario label prefix, problem key, explanation).
KNOWN_LIBRARY_ISSUES = [
    ('symlink-short-components', 'sl:format',
     'RockRidge._new_symlink charges every component twice for its 2-byte header against the room '
     'left in the directory record.  A target with many short components that really fits in the '
     'record (so no CE was reserved) exhausts that budget early: the writer sets CONTINUE (0x01) in '
     'the flags byte of the only SL entry, puts the remaining components in an SL entry on the '
     'continuation list that is never written (there is no CE), and the link target on disc is '
     'truncated.  E.g. rock_ridge=1.09, name "s", target "/".join(["a"]*34 .. 54).'),
    ('reloc-long-name', 'susp:ce-outside',
     'add_directory() of a directory that must be relocated (depth 8) whose rr_name is too long for the '
     'directory record: PyCdlib._add_directory calls _update_rr_ce_entry() for the real record under '
     'RR_MOVED but never for the CL placeholder record ("fake_dir_rec"), so the placeholder keeps CE '
     'block 0 / offset 0 and its continuation area (rest of NM, PX, TF, CL) is written over bytes 0.. of '
     'the System Area (sector 0).'),
] + [('reloc-long-name two', k,
      'same defect with two such siblings: both continuation areas land on sector 0 offset 0, the second '
      'overwrites the first, so the first placeholder shows the second one\'s NM tail/PX/TF/CL')
     for k in ('susp:ce-overlap', 'susp:len-sum', 'susp:cl-target', 'susp:pl-target', 'px:nlink:dir')]
FAILS = []
NOTES = []
KNOWN_HITS = {}


def check(cond, label, detail=''):
    if not cond:
        FAILS.append((label, detail))
        print('FAIL %s: %s' % (label, detail))
    return cond


class Build:
    """A pycdlib image under construction plus the logical Rock Ridge tree we expect."""

    def __init__(self, ver, xa=False, **kw):
        self.ver, self.xa = ver, xa
        self.iso = pycdlib.PyCdlib()
        self.iso.new(interchange_level=kw.pop('interchange_level', 3), rock_ridge=ver, xa=xa, **kw)
        self.exp = {'/': ('dir', None, None)}        # logical path -> (kind, mode, target)
        self.lpath = {'/': '/'}                      # iso dir path -> logical path
        self.names = {}                              # iso path -> rr name (non relocated records only)
        self.hidden = set()
        self.reloc = None                            # logical name of the relocation directory

    def _lp(self, iso_path, rr_name):
        parent = iso_path.rsplit('/', 1)[0] or '/'
        if iso_path.count('/') < 8:
            self.names[iso_path] = rr_name
        return (self.lpath[parent] if parent != '/' else '') + '/' + rr_name

    def file(self, iso_path, rr_name, mode=0o100644, data=b'x'):
        self.iso.add_fp(io.BytesIO(data), len(data), iso_path=iso_path, rr_name=rr_name, file_mode=mode)
        self.exp[self._lp(iso_path, rr_name)] = ('file', mode, None)

    def dir(self, iso_path, rr_name, mode=0o040755):
        self.iso.add_directory(iso_path=iso_path, rr_name=rr_name, file_mode=mode)
        lp = self._lp(iso_path, rr_name)
        self.exp[lp] = ('dir', mode, None)
        self.lpath[iso_path] = lp
        if iso_path.count('/') >= 8 and self.reloc is None:
            self.reloc = 'rr_moved'

    def link(self, iso_path, rr_name, target):
        self.iso.add_symlink(symlink_path=iso_path, rr_symlink_name=rr_name, rr_path=target)
        self.exp[self._lp(iso_path, rr_name)] = ('symlink', None, target.encode())

    def rm(self, iso_path, rr_name):
        self.iso.rm_file(iso_path=iso_path, rr_name=rr_name)
        del self.exp[self._lp(iso_path, rr_name)]
        self.names.pop(iso_path, None)

    def hide(self, iso_path):
        self.iso.set_hidden(iso_path=iso_path)
        self.hidden.add(iso_path)

    def image(self):
        out = io.BytesIO()
        self.iso.write_fp(out)
        self.iso.close()
        return out.getvalue()


def verify(label, b, img=None, expect_known=()):
    """Decode the image of a Build and compare with what was built.  Returns the RRVolume."""
    img = img if img is not None else b.image()
    iso = ecma119.decode(img)
    v = susp.decode(img, iso)
    check(iso.all_problems() == [], label + ' ecma119', iso.all_problems()[:3])
    probs = []
    for key, detail in v.problems:
        known = [k for k in KNOWN_LIBRARY_ISSUES if label.startswith(k[0]) and k[1] == key]
        if known:
            KNOWN_HITS.setdefault((known[0][0], key), []).append(label)
        else:
            probs.append((key, detail))
    check(probs == [], label + ' problems', probs[:4])
    for key in expect_known:
        check(any(k == key for k, _ in v.problems), label + ' expected known issue', key)
    check((v.present, v.version, v.xa, v.skip) == (True, b.ver, b.xa, 14 if b.xa else 0), label + ' header',
          (v.present, v.version, v.xa, v.skip))
    for ip, name in b.names.items():
        e = v.entries.get(ip)
        check(e is not None and e.name == name.encode(), label + ' name', (ip, name[:30], e.name[:30] if e and e.name else None))
    exp = dict(b.exp)
    if b.reloc:
        exp['/' + b.reloc] = ('dir', 0o040555, None)
    if not expect_known:
        check(set(v.logical) == set(exp), label + ' logical tree',
              (sorted(set(v.logical) - set(exp))[:3], sorted(set(exp) - set(v.logical))[:3]))
        for lp, (kind, mode, target) in exp.items():
            n = v.logical.get(lp)
            if n is None:
                continue
            ok = n.kind == kind and (mode is None or n.mode == mode) and n.target == target
            if kind == 'symlink':
                ok = ok and n.mode & 0o170000 == 0o120000
            check(ok, label + ' node', (lp[-40:], kind, mode, target and target[:30], n.kind, n.mode, n.target and n.target[:30]))
    for lp, n in v.logical.items():
        check(n.hidden == (n.iso_path in b.hidden), label + ' hidden', (lp, n.iso_path, n.hidden))
    # byte ranges reported for continuation areas are inside the image and never inside a directory
    dirs = [(s, e) for k, _, s, e in iso.extent_map if k == 'iso-dir']
    for kind, ident, s, e in () if expect_known else v.extent_map:
        check(0 < s < e <= len(img) and not any(s < de and ds < e for ds, de in dirs), label + ' extent', (kind, ident, s, e))
    return v


# ---------------------------------------------------------------------------------------------
def combos():
    for ver in VERSIONS:
        for xa in (False, True):
            yield ver, xa, '%s%s' % (ver, '+xa' if xa else '')


def rr_name_of(n, i):
    base = 'n%04d_%d_' % (n, i)
    return (base + 'x' * n)[:n] if n >= len(base) + 1 else ('%c' % (97 + i % 26)) * n if n > 2 else 'ABCDEFGHIJKLMNOPQRSTUVWXYZabcdefghijklmnopqrstuvwxyz0123456789'[i % 62] * n


def t_basic():
    for ver, xa, tag in combos():
        b = Build(ver, xa)
        b.file('/FOO.;1', 'foo')
        b.dir('/DIR1', 'dir1')
        b.link('/SYM.;1', 'sym', 'a/b/../c')
        b.file('/DIR1/BAR.;1', 'bar', mode=0o100755)
        b.file('/HID.;1', 'hid')
        b.hide('/HID.;1')
        v = verify('basic ' + tag, b)
        e = v.entries['/FOO.;1']
        check(e.mode == 0o100644 and e.nlink == 1 and e.tf.get('flags') == 0x0e and not e.tf['long_form'] and
              list(e.tf['stamps']) == ['modify', 'access', 'attributes'], 'basic attrs ' + tag, (e, e.tf))
        check((e.rr_flags is not None) == (ver == '1.09') and (e.serial is not None) == (ver == '1.12'), 'basic rr/serial ' + tag)
        check(v.er is not None and v.er[0] == (b'IEEE_P1282' if ver == '1.12' else b'RRIP_1991A'), 'basic er ' + tag, v.er)
        check(any(k == 'rr-er' for k, _, _, _ in v.extent_map) and any(k == 'rr-ce-sector' for k, _, _, _ in v.extent_map), 'basic extent map ' + tag)
    # an image without Rock Ridge
    iso = pycdlib.PyCdlib()
    iso.new(interchange_level=3, xa=True)
    iso.add_fp(io.BytesIO(b'x'), 1, iso_path='/FOO.;1')
    out = io.BytesIO()
    iso.write_fp(out)
    v = susp.decode(out.getvalue())
    check(not v.present and v.problems == [] and v.version is None and v.xa, 'no rock ridge', (v.present, v.problems, v.xa))


def t_names():
    lens = list(range(1, 261)) + [300, 500, 1000]
    for ver, xa, tag in combos():
        b = Build(ver, xa)
        b.dir('/SUB', 'sub')
        for i, n in enumerate(lens):
            b.file('/%sF%04d.;1' % ('SUB/' if i % 3 == 0 else '', i), rr_name_of(n, i))
        v = verify('names ' + tag, b)
        with_ce = [e for e in v.entries.values() if e.ce_areas]
        check(len(with_ce) > 100 and all(len(e.nm) > 1 for e in with_ce if len(e.name) > 250), 'names use CE ' + tag, len(with_ce))
    # removal history: 30 long names, remove 15, add 10
    for ver, xa, tag in combos():
        b = Build(ver, xa)
        for i in range(30):
            b.file('/L%03d.;1' % i, rr_name_of(120 + 7 * i, i))
        for i in range(0, 30, 2):
            b.rm('/L%03d.;1' % i, rr_name_of(120 + 7 * i, i))
        for i in range(10):
            b.file('/M%03d.;1' % i, rr_name_of(90 + 20 * i, 40 + i))
        verify('removal ' + tag, b)


TARGETS = ['/abs/path', '.', '..', 'a' * 255, 'a' * 256, 'a' * 600, '/'.join('c%d' % i for i in range(40)), 'x/y/.', './x', '/',
           'a/b/../c', '../../up', '/' + 'b' * 250 + '/' + 'c' * 250, 'a' * 249, 'a' * 250, 'a' * 251, 'a' * 248 + '/bb',
           '/'.join(['dd' * 30] * 12), '/' + 'e' * 1000, '/'.join(['a'] * 20), '/'.join(['a'] * 200), '../' * 30 + 'x']


def t_symlinks():
    for ver, xa, tag in combos():
        b = Build(ver, xa)
        for i, t in enumerate(TARGETS):
            b.link('/S%03d.;1' % i, 's%d' % i, t)
        b.link('/SLONG.;1', rr_name_of(200, 1), 'q' * 300 + '/r')
        v = verify('symlinks ' + tag, b)
        check(any(len(e.sl) > 1 for e in v.entries.values()), 'symlinks multi SL ' + tag)
    # the library defect: many short components that fit in the record
    hits = 0
    for ver, xa, tag in combos():
        for k in (30, 34, 40, 50, 57):
            b = Build(ver, xa)
            t = '/'.join(['a'] * k)
            b.link('/S.;1', 's', t)
            img = b.image()
            v = susp.decode(img)
            bad = v.entries['/S.;1'].target != t.encode()
            check(bad == any(key == 'sl:format' for key, _ in v.problems), 'symlink-short-components consistency %s %d' % (tag, k), v.problems)
            hits += bad
            verify('symlink-short-components %s %d' % (tag, k), b, img, expect_known=('sl:format',) if bad else ())
    NOTES.append('symlink-short-components: %d of 30 images carry the truncated SL (library defect)' % hits)
    # the case from the task statement
    b = Build('1.09', False, interchange_level=2, joliet=1, udf='2.60')
    t = ('/khdeonbln/amn/medoo/oofpnd/lnfhbi/gc/fbolkemkk/.././dfdpipjo/de/dki/pfodaohplfai/fggjd/fkpmcodn/fl/ag/'
         'afkickn/ko/.')
    b.link('/S.;1', 's', t)
    img = b.image()
    v = verify('symlink-short-components task case', b, img, expect_known=('sl:format',))
    e = v.entries['/S.;1']
    check(e.target == t[:-2].encode() and len(e.sl) == 1 and e.sl[0][0] == 1 and not e.ce_areas, 'task case bytes', (e.target, e.sl))


def deep(b, depth=10, files=True, second=False):
    p = ''
    for i in range(1, depth + 1):
        p += '/D%d' % i
        b.dir(p, 'd%d' % i)
        if files:
            b.file(p + '/F.;1', 'file_in_d%d' % i)
            if i in (8, 9):
                b.link(p + '/L.;1', 'link%d' % i, '../x')
    if second:
        p = '/D1'
        for i in range(2, 10):
            p += '/E%d' % i
            b.dir(p, 'e%d' % i)
            b.file(p + '/G.;1', 'g%d' % i + 'y' * 180)


def t_deep():
    for ver, xa, tag in combos():
        b = Build(ver, xa)
        deep(b, second=True)
        v = verify('deep ' + tag, b)
        ph = v.entries['/D1/D2/D3/D4/D5/D6/D7/D8']
        moved = v.entries['/RR_MOVED/D8']
        check((ph.rec.flags, ph.rec.extent[0], ph.rec.data_length[0]) == (0, 0, 2048) and ph.cl == moved.rec.extent[0] and moved.re,
              'deep placeholder shape ' + tag, (ph.rec.flags, ph.rec.extent, ph.rec.data_length, ph.cl, moved.re))
        check(v.dots['/RR_MOVED/D8'][1].pl == v.iso.pvd.dirs['/D1/D2/D3/D4/D5/D6/D7'].extent, 'deep PL ' + tag)
        check(v.logical['/d1/d2/d3/d4/d5/d6/d7/d8'].iso_path == '/RR_MOVED/D8' and
              v.logical['/d1/e2/e3/e4/e5/e6/e7/e8/e9'].kind == 'dir', 'deep logical ' + tag)
        check(v.logical['/rr_moved'].nlink == 4 and v.logical['/d1/d2/d3/d4/d5/d6/d7'].nlink == 3 and ph.nlink == 2 and moved.nlink == 3,
              'deep nlink convention ' + tag, (v.logical['/rr_moved'].nlink, ph.nlink, moved.nlink))
        # renamed relocation directory
        b = Build(ver, xa)
        b.iso.set_relocated_name('MOVED', 'moved')
        deep(b)
        b.reloc = 'moved'
        v = verify('deep renamed ' + tag, b)
        check('/MOVED/D8' in v.entries and v.entries['/MOVED'].name == b'moved', 'deep renamed ' + tag)
        # relocated directory added, then files removed from it
        b = Build(ver, xa)
        deep(b)
        b.rm('/D1/D2/D3/D4/D5/D6/D7/D8/D9/F.;1', 'file_in_d9')
        b.rm('/D1/D2/D3/D4/D5/D6/D7/D8/L.;1', 'link8')
        b.file('/D1/D2/D3/D4/D5/D6/D7/D8/D9/NEW.;1', 'new' * 60)
        verify('deep removal ' + tag, b)


def t_reloc_long_name():
    for ver, xa, tag in combos():
        b = Build(ver, xa)
        p = ''
        for i in range(1, 8):
            p += '/D%d' % i
            b.dir(p, 'd%d' % i)
        b.dir(p + '/D8', 'x' * 200)
        img = b.image()
        v = verify('reloc-long-name one ' + tag, b, img, expect_known=('susp:ce-outside',))
        ph = v.entries[p + '/D8']
        check(ph.ce_areas == [(0, ph.ce_areas[0][1])] and ph.cl == v.entries['/RR_MOVED/D8'].rec.extent[0] and
              any(img[:64]) and set(v.logical) == set(b.exp) | {'/rr_moved'}, 'reloc-long-name bytes ' + tag, ph.ce_areas)
        b = Build(ver, xa)
        p = ''
        for i in range(1, 8):
            p += '/D%d' % i
            b.dir(p, 'd%d' % i)
        b.dir(p + '/D8', 'x' * 200)
        b.dir(p + '/E8', 'y' * 240)
        verify('reloc-long-name two ' + tag, b, expect_known=('susp:ce-outside', 'susp:ce-overlap'))


class Zeros(io.RawIOBase):
    """A readable all-zero file of any size."""

    def __init__(self, n):
        super().__init__()
        self.n, self.p, self.cache = n, 0, {}

    def readable(self):
        return True

    def seekable(self):
        return True

    def tell(self):
        return self.p

    def seek(self, o, w=0):
        self.p = o if w == 0 else self.p + o if w == 1 else self.n + o
        return self.p

    def read(self, n=-1):
        k = max(0, self.n - self.p if n is None or n < 0 else min(n, self.n - self.p))
        self.p += k
        if k not in self.cache:              # the copy loop asks for the same size again and again
            self.cache[k] = bytes(k)
        return self.cache[k]


class Sink(io.RawIOBase):
    """A write-only sparse image: keeps small writes, forgets bulk data; len() and slicing only."""

    def __init__(self):
        super().__init__()
        self.p = self.size = 0
        self.kept = {}

    def writable(self):
        return True

    def seekable(self):
        return True

    def tell(self):
        return self.p

    def seek(self, o, w=0):
        self.p = o if w == 0 else self.p + o if w == 1 else self.size + o
        return self.p

    def write(self, d):
        if len(d) < 65536 or self.p < 1 << 20:
            self.kept[self.p] = bytes(d)
        self.p += len(d)
        self.size = max(self.size, self.p)
        return len(d)

    def __len__(self):
        return self.size

    def __getitem__(self, sl):
        a, b, _ = sl.indices(self.size)
        out = bytearray(max(0, b - a))
        for o, d in self.kept.items():
            if o < b and o + len(d) > a:
                lo, hi = max(a, o), min(b, o + len(d))
                out[lo - a:hi - a] = d[lo - o:hi - o]
        return bytes(out)


def t_multi_extent():
    for ver in ('1.09', '1.12'):
        b = Build(ver)
        n = (1 << 32) + 5000
        name = 'big' + 'g' * 160
        b.iso.add_fp(Zeros(n), n, iso_path='/BIG.;1', rr_name=name, file_mode=0o100600)
        b.exp['/' + name] = ('file', 0o100600, None)
        b.names['/BIG.;1'] = name
        b.file('/F.;1', 'f')
        sink = Sink()
        b.iso.write_fp(sink)
        b.iso.close()
        v = verify('multi-extent ' + ver, b, sink)
        check(len(v.others) == 1 and v.others[0].name == name.encode() and v.logical['/' + name].length == n and
              len([1 for k, i, _, _ in v.extent_map if k == 'rr-ce' and i.startswith('/BIG.;1')]) == 2,
              'multi-extent records ' + ver, (v.others, v.extent_map))


def t_histories(count=60):
    """Random add/remove histories (no reopen, short directory names)."""
    rnd = random.Random(4711)
    for it in range(count):
        ver, xa = rnd.choice(VERSIONS), rnd.random() < 0.3
        b = Build(ver, xa, **({'joliet': 3} if rnd.random() < 0.3 else {}))
        dirs, files = [''], []
        for n in range(1, rnd.randrange(5, 50)):
            op, d = rnd.random(), rnd.choice(dirs)
            if op < 0.3:
                d = max(dirs, key=lambda x: x.count('/')) if rnd.random() < 0.6 else d
                if d.count('/') < 10:
                    b.dir('%s/D%d' % (d, n), 'd%d' % n + 'q' * rnd.choice((0, 0, 10, 20)))
                    dirs.append('%s/D%d' % (d, n))
            elif op < 0.6:
                nm = 'f%d' % n + 'w' * rnd.choice((0, 5, 50, 120, 130, 140, 150, 200, 250, 251, 400))
                b.file('%s/F%d.;1' % (d, n), nm)
                files.append(('%s/F%d.;1' % (d, n), nm))
            elif op < 0.8:
                nm = 's%d' % n + 'w' * rnd.choice((0, 5, 50, 120, 200))
                t = '/'.join(rnd.choice(('a', 'bb', '..', '.', 'c' * rnd.randrange(1, 300))) for _ in range(rnd.randrange(1, 7)))
                b.link('%s/S%d.;1' % (d, n), nm, ('/' if rnd.random() < 0.3 else '') + t)
                files.append(('%s/S%d.;1' % (d, n), nm))
            elif files:
                b.rm(*files.pop(rnd.randrange(len(files))))
        verify('history %d %s%s' % (it, ver, '+xa' if xa else ''), b)


# ---------------------------------------------------------------------------------------------
def base_image(ver='1.09', xa=False):
    b = Build(ver, xa)
    deep(b)
    b.file('/FOO.;1', 'foo')
    b.file('/LONG.;1', 'L' * 400)
    b.file('/LONH.;1', 'M' * 300)
    b.file('/AB.;1', 'ab')
    b.link('/SYM.;1', 'sym', 'a/b/../c')
    b.link('/SYN.;1', 'syn', 'z' * 300 + '/k')
    return b.image()


def entry_off(v, where, sig, nth=0):
    e = v.entries[where] if where in v.entries else v.dots[where[:-2] or '/'][0] if where.endswith('/.') else v.dots[where[:-3] or '/'][1]
    return [o for (s, _), o in zip(e.raw_entries, e.offsets) if s == sig][nth]


def both(n):
    return struct.pack('<L', n) + struct.pack('>L', n)


def t_corruptions():
    img = base_image()
    v0 = susp.decode(img)
    check(v0.problems == [], 'corruption base', v0.problems)
    off = lambda where, sig, nth=0: entry_off(v0, where, sig, nth)   # noqa
    ph = '/D1/D2/D3/D4/D5/D6/D7/D8'
    long_ce = v0.entries['/LONG.;1'].ce_areas[0]
    lonh_ce = v0.entries['/LONH.;1'].ce_areas[0]
    cases = [
        ('TF length +2 runs past the area', 'susp:len-sum', [(off('/FOO.;1', 'TF') + 2, bytes([28]))]),
        ('NM length 3', 'susp:len-sum', [(off('/FOO.;1', 'NM') + 2, b'\x03')]),
        ('NM in CE one byte short', 'susp:len-sum', [(off('/LONG.;1', 'NM', 1) + 2, bytes([img[off('/LONG.;1', 'NM', 1) + 2] - 1]))]),
        ('CE length of entry 27', 'susp:len-sum', [(off('/LONG.;1', 'CE') + 2, b'\x1b')]),
        ('CE offset 2000', 'susp:ce-outside', [(off('/LONG.;1', 'CE') + 12, both(2000))]),
        ('CE block beyond volume', 'susp:ce-outside', [(off('/LONG.;1', 'CE') + 4, both(len(img) // SEC + 5))]),
        ('CE block halves differ', 'px:both-endian', [(off('/LONG.;1', 'CE') + 4, b'\x01\x00\x00\x00')]),
        ('PX mode LE half changed', 'px:both-endian', [(off('/FOO.;1', 'PX') + 4, b'\xa5')]),
        ('PX nlink BE half changed', 'px:both-endian', [(off('/D1', 'PX') + 19, b'\x09')]),
        ('CL halves differ', 'px:both-endian', [(off(ph, 'CL') + 4, b'\x63')]),
        ('CL -> a file extent', 'susp:cl-target', [(off(ph, 'CL') + 4, both(v0.entries['/FOO.;1'].rec.extent[0]))]),
        ('CL -> unrelocated directory', 'susp:re-missing', [(off(ph, 'CL') + 4, both(v0.entries['/D1/D2'].rec.extent[0]))]),
        ('RE dropped', 'susp:re-missing', [(off('/RR_MOVED/D8', 'RE'), b'PD')]),
        ('CL dropped', 'susp:cl-target', [(off(ph, 'CL'), b'PD')]),
        ('PL -> root', 'susp:pl-target', [(off('/RR_MOVED/D8/..', 'PL') + 4, both(v0.iso.pvd.dirs['/'].extent))]),
        ('PL dropped', 'susp:pl-target', [(off('/RR_MOVED/D8/..', 'PL'), b'PD')]),
        ('SL entry CONTINUE at the end', 'sl:format', [(off('/SYM.;1', 'SL') + 4, b'\x01')]),
        ('SL last component CONTINUE', 'sl:format', [(off('/SYM.;1', 'SL') + 16 - 3, b'\x01')]),
        ('SL component too long', 'sl:format', [(off('/SYM.;1', 'SL') + 6, b'\x40')]),
        ('SL PARENT component with length', 'sl:format', [(off('/SYM.;1', 'SL') + 11, b'\x04\x03')]),
        ('SL chain broken in the middle', 'sl:format', [(off('/SYN.;1', 'SL') + 4, b'\x00')]),
        ('SP signature destroyed', 'susp:sp-missing', [(off('/.', 'SP'), b'XX')]),
        ('SP check bytes wrong', 'susp:sp-missing', [(off('/.', 'SP') + 4, b'\xbe\xee')]),
        ('SP in another record', 'susp:sp-misplaced', [(off('/AB.;1', 'NM'), b'SP\x07\x01\xbe\xef\x00')]),
        ('ER destroyed', 'susp:er-missing', [(off('/.', 'ER'), b'ZZ')]),
        ('ER string lengths', 'susp:len-sum', [(off('/.', 'ER') + 4, b'\x0b')]),
        ('ER id of 1.12 with 36-byte PX', 'px:length', [(off('/.', 'ER') + 8, b'IEEE_P1282')]),
        ('unknown signature', 'susp:unknown-entry', [(off('/FOO.;1', 'TF'), b'ZZ')]),
        ('NM CONTINUE on the last NM', 'name:flags', [(off('/FOO.;1', 'NM') + 4, b'\x01')]),
        ('NM CONTINUE cleared in a chain', 'name:flags', [(off('/LONG.;1', 'NM') + 4, b'\x00')]),
        ('NM CURRENT on a file', 'name:flags', [(off('/FOO.;1', 'NM') + 4, b'\x02')]),
        ('NM removed', 'name:missing', [(off('/AB.;1', 'NM'), b'PD')]),
        ('file with S_IFDIR mode', 'px:type', [(off('/FOO.;1', 'PX') + 4, both(0o040755))]),
        ('symlink with S_IFREG mode', 'px:type', [(off('/SYM.;1', 'PX') + 4, both(0o100644))]),
        ('directory with S_IFREG mode', 'px:type', [(off('/D1/.', 'PX') + 4, both(0o100755))]),
        ('"." link count', 'px:nlink:dir', [(off('/D1/.', 'PX') + 12, both(7))]),
        ('".." link count', 'px:nlink:dir', [(off('/D1/D2/..', 'PX') + 12, both(2))]),
        ('TF flags', 'tf:format', [(off('/FOO.;1', 'TF') + 4, b'\x0f')]),
        ('TF month 13', 'tf:format', [(off('/FOO.;1', 'TF') + 6, b'\x0d')]),
        ('CE loop', 'susp:ce-loop', [(long_ce[0], b'CE\x1c\x01' + both(long_ce[0] // SEC) + both(long_ce[0] % SEC) + both(long_ce[1] - long_ce[0]))]),
        ('CE shared by two records', 'susp:ce-overlap', [(off('/LONH.;1', 'CE') + 4, both(long_ce[0] // SEC) + both(long_ce[0] % SEC + 8) + both(40))]),
    ]
    del lonh_ce
    for label, key, patches in cases:
        m = bytearray(img)
        for o, data in patches:
            m[o:o + len(data)] = data
        try:
            v = susp.decode(bytes(m))
        except Exception as exc:                                # noqa
            check(False, 'corruption ' + label, 'raised %r' % exc)
            continue
        keys = [k for k, _ in v.problems]
        check(key in keys and not any(k.startswith('decode:') for k in keys), 'corruption ' + label, 'want %s got %s' % (key, v.problems[:4]))
    return len(cases)


def t_fuzz():
    fuzz('1.09', False, 2000)
    fuzz('1.12', True, 1000)


def fuzz(ver, xa, iterations):
    img = base_image(ver, xa)
    iso = ecma119.decode(img)
    v0 = susp.decode(img, iso)
    sectors = set()
    for kind, _, s, e in iso.extent_map + v0.extent_map:
        if kind in ('iso-dir', 'rr-ce-sector'):
            sectors.update(range(s // SEC, (e + SEC - 1) // SEC))
    sectors = sorted(sectors)
    used = {s: max((i for i in range(SEC) if img[s * SEC + i]), default=0) + 1 for s in sectors}
    rnd = random.Random(20261002 + iterations)
    slowest, internal, upstream, keys = 0.0, [], 0, set()
    for it in range(iterations):
        m = bytearray(img)
        for _ in range(rnd.choice((1, 1, 2, 4, 16))):
            s = rnd.choice(sectors)
            o = s * SEC + rnd.randrange(used[s])
            m[o] = rnd.choice((m[o] ^ (1 << rnd.randrange(8)), rnd.randrange(256), 0, 255, m[o] + 1 & 255))
        m = bytes(m)
        t = time.time()
        try:
            fi = ecma119.decode(m)
        except Exception:                                       # noqa - not the module under test
            upstream += 1
            fi = None
        try:
            v = susp.decode(m, fi)
        except Exception as exc:                                # noqa
            internal.append((it, repr(exc)))
            continue
        slowest = max(slowest, time.time() - t)
        keys.update(k for k, _ in v.problems)
        internal.extend((it, d) for k, d in v.problems if k.startswith('decode:') and fi is not None)
    check(not internal, 'fuzz: internal exceptions', internal[:3])
    check(slowest < 2.0, 'fuzz: slowest decode', slowest)
    NOTES.append('fuzz %s%s: %d iterations over %d sectors, slowest decode %.3fs, %d distinct problem keys, ecma119 raised %d times'
                 % (ver, '+xa' if xa else '', iterations, len(sectors), slowest, len(keys), upstream))


def main():
    t0 = time.time()
    for fn in (t_basic, t_names, t_symlinks, t_deep, t_reloc_long_name, t_multi_extent, t_histories, t_corruptions, t_fuzz):
        t = time.time()
        r = fn()                                # everything lives in memory: no scratch files
        print('%-18s %s  %.1fs' % (fn.__name__, 'done' if r is None else '%s cases' % r, time.time() - t))
    for n in NOTES:
        print('note:', n)
    for (scen, key), labels in sorted(KNOWN_HITS.items()):
        print('known library issue %s / %s seen on %d images' % (scen, key, len(labels)))
    for scen, key, _ in KNOWN_LIBRARY_ISSUES:
        if (scen, key) not in KNOWN_HITS:
            print('note: known library issue %s / %s no longer reproduces' % (scen, key))
    print('%d failures, %.1fs' % (len(FAILS), time.time() - t0))
    return 1 if FAILS else 0


if __name__ == '__main__':
    sys.exit(main())
