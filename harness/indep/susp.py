"""Independent SUSP 1.12 / Rock Ridge (RRIP 1.09, 1.10, 1.12) decoder.

Shares no code with pycdlib; built on harness/indep/ecma119.py.

decode(img, iso=None) -> RRVolume
  img: anything with len() and slicing -> bytes;  iso: an ecma119.Image (decoded here if None)

RRVolume: present, version ('1.09'|'1.10'|'1.12'|None), skip, xa, er (id, descriptor, source,
  ext_ver)|None, problems [(key, detail)], entries {iso_path: RREntry}, dots {dir iso_path:
  (RREntry, RREntry)}, others [RREntry of the 2nd.. records of multi-extent files], logical {posix
  path: LNode}, extent_map [(kind, id, start, end)], holder {relocated dir: dir holding its CL}.
Problem keys: susp:len-sum susp:unknown-entry susp:ce-outside susp:ce-overlap susp:ce-loop
  susp:sp-missing susp:sp-misplaced susp:er-missing susp:re-missing susp:cl-target susp:pl-target
  name:missing name:flags sl:format px:length px:both-endian px:type px:nlink:dir tf:format
  decode:<where>
"""
import struct

from . import ecma119

SECTOR = 2048
KNOWN = ('SP', 'CE', 'ER', 'ES', 'PX', 'PN', 'SL', 'NM', 'CL', 'PL', 'RE', 'TF', 'SF', 'RR', 'AL', 'PD', 'ST')
FIXED = {'SP': (7,), 'CE': (28,), 'ES': (5,), 'PN': (20,), 'CL': (12,), 'PL': (12,), 'RE': (4,),
         'RR': (5,), 'SF': (12, 21), 'ST': (4,)}
TF_NAMES = ('creation', 'modify', 'access', 'attributes', 'backup', 'expiration', 'effective')
IFMT, IFDIR, IFREG, IFLNK, IFCHR, IFBLK = 0o170000, 0o040000, 0o100000, 0o120000, 0o020000, 0o060000
MAX_CE = 32


class RREntry:
    def __init__(self, where, rec):
        self.where = where          # iso path ('<dir>/.' and '<dir>/..' for the dot records)
        self.rec = rec              # the ecma119.Rec
        self.dot = rec.ident in (b'\x00', b'\x01')
        self.name = self.mode = self.nlink = self.uid = self.gid = self.serial = None
        self.target = self.cl = self.pl = self.rr_flags = self.px_len = self.pn = None
        self.re = self.is_symlink = self.has_sp = False
        self.er = None
        self.tf = {}
        self.sigs = []
        self.ce_areas = []
        self.raw_entries = []
        self.offsets = []           # absolute image offset of each raw entry (parallel list)
        self.nm = []                # [(flags, bytes)]
        self.sl = []                # [(entry flags, [(component flags, bytes)])]

    def __repr__(self):
        return 'RREntry(%s name=%r mode=%s nlink=%s sigs=%s)' % (
            self.where, self.name, oct(self.mode) if self.mode is not None else None, self.nlink, ','.join(self.sigs))


class LNode:
    __slots__ = ('kind', 'path', 'iso_path', 'mode', 'nlink', 'target', 'extent', 'length', 'hidden')

    def __repr__(self):
        return 'LNode(%s %s <- %s)' % (self.kind, self.path, self.iso_path)


class RRVolume:
    def __init__(self):
        self.present = False
        self.version = None
        self.skip = 0
        self.xa = False
        self.er = None
        self.problems = []
        self.entries = {}
        self.dots = {}
        self.logical = {}
        self.extent_map = []
        self.iso = None
        self.others = []              # RREntry of the further records of multi-extent files
        self.holder = {}              # relocated dir iso path -> iso path of the dir holding its CL

    def prob(self, key, detail=''):
        self.problems.append((key, detail))


def _both(vol, raw, off, what):
    le = struct.unpack_from('<L', raw, off)[0]
    be = struct.unpack_from('>L', raw, off + 4)[0]
    if le != be:
        vol.prob('px:both-endian', '%s: LE %d BE %d' % (what, le, be))
    return le


def _xa_prefix(su):
    return len(su) >= 14 and su[6:8] == b'XA' and su[:2].decode('latin-1') not in KNOWN


def _stamp_ok(raw, long_form):
    if not any(raw) or (long_form and raw[:16] == b'0' * 16):
        return True
    if long_form:
        if not raw[:16].isdigit():
            return False
        mo, d, h, mi, s = (int(raw[i:i + 2]) for i in (4, 6, 8, 10, 12))
        off = raw[16] - 256 if raw[16] > 127 else raw[16]
    else:
        mo, d, h, mi, s = raw[1:6]
        off = raw[6] - 256 if raw[6] > 127 else raw[6]
    return 1 <= mo <= 12 and 1 <= d <= 31 and h <= 23 and mi <= 59 and s <= 59 and -48 <= off <= 52


def _parse_record(vol, img, rec, where, root_dot=False):
    """Walk the system-use area of one directory record and its continuation areas."""
    e = RREntry(where, rec)
    su = rec.su
    start = 14 if _xa_prefix(su) else 0
    if not root_dot:
        start = max(start, vol.skip)
    area, base, in_dr = su[start:], rec.su_offset + start, True
    hops = 0
    first = True
    while True:
        p, ce = 0, None
        while p < len(area):
            left = len(area) - p
            if left < 4:
                if not (in_dr and left == 1 and area[p] == 0):
                    vol.prob('susp:len-sum', '%s: %d stray bytes %r at the end of the %s' % (
                        where, left, area[p:], 'system-use area' if in_dr else 'continuation area'))
                break
            sig, ln = area[p:p + 2].decode('latin-1'), area[p + 2]
            if ln < 4 or p + ln > len(area):
                vol.prob('susp:len-sum', '%s: entry %r length %d at +%d of a %d-byte area' % (where, sig, ln, p, len(area)))
                break
            body = area[p:p + ln]
            if sig not in KNOWN:
                vol.prob('susp:unknown-entry', '%s: %r' % (where, sig))
            elif sig in FIXED and ln not in FIXED[sig]:
                vol.prob('susp:len-sum', '%s: %s entry of length %d' % (where, sig, ln))
            else:
                e.sigs.append(sig)
                e.raw_entries.append((sig, body))
                e.offsets.append(base + p)
                if sig == 'CE':
                    if ce is not None:
                        vol.prob('susp:ce-loop', '%s: two CE entries in one area' % where)
                    else:
                        ce = tuple(_both(vol, body, o, where + ' CE') for o in (4, 12, 20))
                elif sig == 'ST':
                    break
                else:
                    _entry(vol, e, sig, body, where, root_dot and first and in_dr)
            first = False
            p += ln
        if ce is None:
            break
        blk, off, ln = ce
        a = blk * SECTOR + off
        space = vol.iso.space_size or len(img) // SECTOR
        first_free = vol.iso.after_set_sector or 16       # system area + volume descriptor set
        beyond = off + ln > SECTOR or blk >= space or a + ln > len(img)
        if beyond or blk < first_free:
            vol.prob('susp:ce-outside', '%s: CE block %d offset %d length %d (volume: sectors %d..%d)' % (where, blk, off, ln, first_free, space - 1))
            if beyond:                    # an area inside the system area is still followed
                break
        hops += 1
        if hops > MAX_CE or any(a < y and x < a + ln for x, y in e.ce_areas):
            vol.prob('susp:ce-loop', '%s: CE chain revisits [%d,%d) or is longer than %d' % (where, a, a + ln, MAX_CE))
            break
        e.ce_areas.append((a, a + ln))
        area, base, in_dr = img[a:a + ln], a, False
    _finish(vol, e, where)
    return e


def _entry(vol, e, sig, b, where, may_be_sp):
    ln = len(b)
    if sig == 'SP':
        if may_be_sp and b[4:6] == b'\xbe\xef':
            e.has_sp = True
        else:
            vol.prob('susp:sp-misplaced', '%s: SP %s' % (where, b.hex()))
    elif sig == 'PX':
        e.px_len = ln
        if ln in (36, 44):
            e.mode, e.nlink, e.uid, e.gid = (_both(vol, b, o, where + ' PX') for o in (4, 12, 20, 28))
            if ln == 44:
                e.serial = _both(vol, b, 36, where + ' PX serial')
    elif sig == 'PN':
        e.pn = (_both(vol, b, 4, where + ' PN'), _both(vol, b, 12, where + ' PN'))
    elif sig == 'CL':
        e.cl = _both(vol, b, 4, where + ' CL')
    elif sig == 'PL':
        e.pl = _both(vol, b, 4, where + ' PL')
    elif sig == 'RE':
        e.re = True
    elif sig == 'RR':
        e.rr_flags = b[4]
    elif sig == 'NM':
        if ln < 5:
            vol.prob('susp:len-sum', '%s: NM entry of length %d' % (where, ln))
        else:
            e.nm.append((b[4], b[5:]))
    elif sig == 'SL':
        if ln < 5:
            vol.prob('susp:len-sum', '%s: SL entry of length %d' % (where, ln))
            return
        comps, p = [], 5
        while p < ln:
            if p + 2 > ln or p + 2 + b[p + 1] > ln:
                vol.prob('sl:format', '%s: component at +%d runs past the %d-byte SL entry' % (where, p, ln))
                break
            comps.append((b[p], b[p + 2:p + 2 + b[p + 1]]))
            p += 2 + b[p + 1]
        e.sl.append((b[4], comps))
    elif sig == 'TF':
        flags = b[4] if ln > 4 else 0
        long_form = bool(flags & 0x80)
        size = 17 if long_form else 7
        names = [n for i, n in enumerate(TF_NAMES) if flags & (1 << i)]
        if ln < 5 or ln != 5 + size * len(names):
            vol.prob('tf:format', '%s: TF flags 0x%02x need %d bytes, entry has %d' % (where, flags, 5 + size * len(names), ln))
            return
        stamps = e.tf.get('stamps', {})
        for i, n in enumerate(names):
            stamps[n] = b[5 + i * size:5 + (i + 1) * size]
            if not _stamp_ok(stamps[n], long_form):
                vol.prob('tf:format', '%s: TF %s stamp %s' % (where, n, stamps[n].hex()))
        e.tf = {'flags': flags, 'long_form': long_form, 'stamps': stamps}
    elif sig == 'ER':
        if ln < 8 or ln != 8 + b[4] + b[5] + b[6]:
            vol.prob('susp:len-sum', '%s: ER entry length %d, strings need %d' % (where, ln, 8 + sum(b[4:7])))
        else:
            i, d, s = b[4], b[5], b[6]
            e.er = (b[8:8 + i], b[8 + i:8 + i + d], b[8 + i + d:8 + i + d + s], b[7])


def _finish(vol, e, where):
    """Reassemble the alternate name and the symbolic link target of one record."""
    if e.nm:
        e.name = b''.join(n for _, n in e.nm)
        if any(not f & 1 for f, _ in e.nm[:-1]) or e.nm[-1][0] & 1:
            vol.prob('name:flags', '%s: NM flags %s: CONTINUE chain broken' % (where, [f for f, _ in e.nm]))
        if not e.dot and any(f & 6 for f, _ in e.nm):
            vol.prob('name:flags', '%s: NM CURRENT/PARENT flag on an ordinary record' % where)
    if e.sl:
        e.is_symlink = True
        parts, glue = [], False
        for i, (eflags, comps) in enumerate(e.sl):
            last_entry = i == len(e.sl) - 1
            if last_entry and eflags & 1:
                vol.prob('sl:format', '%s: last SL entry has the CONTINUE flag' % where)
            for j, (cf, data) in enumerate(comps):
                if cf & 0x0e:
                    if data:
                        vol.prob('sl:format', '%s: root/current/parent component (flags 0x%02x) with %d content bytes' % (where, cf, len(data)))
                    data = b'' if cf & 8 else b'.' if cf & 2 else b'..'
                if glue and parts:
                    parts[-1] += data
                else:
                    parts.append(data)
                glue = bool(cf & 1)
                if glue and j == len(comps) - 1 and (last_entry or not eflags & 1):
                    vol.prob('sl:format', '%s: component CONTINUE flag with no continuation (SL entry %d)' % (where, i))
        e.target = b'/' if parts == [b''] else b'/'.join(parts)


def decode(img, iso=None):
    vol = RRVolume()
    try:
        vol.iso = iso = iso if iso is not None else ecma119.decode(img)
        pv = iso.pvd
        if pv is not None and '/' in pv.dirs and pv.dirs['/'].dot is not None:
            _decode(img, pv, vol)
    except Exception as exc:                                  # noqa - the oracle must never raise
        vol.prob('decode:top', repr(exc))
    return vol


def _guard(vol, where, fn, *args):
    try:
        return fn(*args)
    except Exception as exc:                                  # noqa
        vol.prob('decode:' + where, repr(exc))
        return None


def _decode(img, pv, vol):
    rdot = pv.dirs['/'].dot
    su = rdot.su
    vol.xa = _xa_prefix(su)
    s = su[14:] if vol.xa else su
    vol.present = len(s) >= 7 and s[:3] == b'SP\x07' and s[4:6] == b'\xbe\xef'
    vol.skip = s[6] if vol.present else 0
    # ---- every record -------------------------------------------------------
    for path, info in pv.dirs.items():
        if info.dot is None:
            continue
        pre = path if path != '/' else ''
        d0 = _guard(vol, pre + '/.', _parse_record, vol, img, info.dot, pre + '/.', path == '/')
        d1 = _guard(vol, pre + '/..', _parse_record, vol, img, info.dotdot, pre + '/..')
        vol.dots[path] = (d0 or RREntry(pre + '/.', info.dot), d1 or RREntry(pre + '/..', info.dotdot))
    for path, node in pv.tree.items():
        if path == '/':
            continue
        ids = [path if i == 0 else '%s#%d' % (path, i) for i in range(len(node.recs))]
        got = [_guard(vol, w, _parse_record, vol, img, r, w) or RREntry(w, r) for w, r in zip(ids, node.recs)]
        # a multi-extent file has one record per extent: the first one carrying attributes wins
        vol.entries[path] = next((g for g in got if g.px_len is not None or g.nm), got[0])
        vol.others.extend(g for g in got if g is not vol.entries[path])
    everything = [e for pair in vol.dots.values() for e in pair] + list(vol.entries.values()) + vol.others
    if not vol.present:
        if not any(e.sigs for e in everything):
            vol.problems = []            # no SUSP on this image at all
            vol.entries, vol.dots, vol.others = {}, {}, []
            return
        vol.prob('susp:sp-missing', 'root "." system-use area starts with %r' % s[:7])
    _guard(vol, 'checks', _checks, pv, vol, everything)
    _guard(vol, 'links', _link_counts, pv, vol)
    _guard(vol, 'logical', _logical, pv, vol)
    _guard(vol, 'extents', _extents, vol, everything)


def _checks(pv, vol, everything):
    root = vol.dots['/'][0]
    # ---- version ------------------------------------------------------------
    vol.er = root.er
    if root.er is None:
        vol.prob('susp:er-missing', 'no ER entry reachable from the root "." record')
    else:
        ext = root.er[0]
        if ext == b'RRIP_1991A':
            vol.version = '1.09' if any(e.rr_flags is not None for e in everything) else '1.10'
        elif ext in (b'IEEE_P1282', b'IEEE_1282'):
            vol.version = '1.12'
    want_px = {'1.09': 36, '1.10': 36, '1.12': 44}.get(vol.version)
    any_nm = any(e.nm for e in vol.entries.values())
    for e in everything:
        if e.px_len is not None and (e.px_len not in (36, 44) or (want_px and e.px_len != want_px)):
            vol.prob('px:length', '%s: PX length %d (RRIP %s)' % (e.where, e.px_len, vol.version))
        if any_nm and not e.dot and not e.nm:
            vol.prob('name:missing', e.where)
        if e.mode is not None and e.cl is None:
            t = e.mode & IFMT
            if e.rec.flags & 2:
                want = (IFDIR,)
            elif e.sl:
                want = (IFLNK,)
            else:
                want = (IFREG, IFCHR, IFBLK) if e.pn else (IFREG,)
            if t not in want:
                vol.prob('px:type', '%s: mode %o on a %s record' % (
                    e.where, e.mode, 'directory' if e.rec.flags & 2 else 'symlink' if e.sl else 'file'))
    # ---- relocation ---------------------------------------------------------
    by_extent = {info.extent: p for p, info in pv.dirs.items()}
    holder = {}                           # relocated dir path -> path of the dir holding the CL record
    for path, e in vol.entries.items():
        if e.cl is None:
            continue
        tgt = by_extent.get(e.cl)
        if tgt is None or tgt == '/' or tgt not in vol.entries:
            vol.prob('susp:cl-target', '%s: CL %d is not the extent of a directory of this volume' % (path, e.cl))
        elif not vol.entries[tgt].re:
            vol.prob('susp:re-missing', '%s: CL -> %s, whose record has no RE' % (path, tgt))
            holder.setdefault(tgt, pv.tree[path].parent.path)
        elif tgt in holder:
            vol.prob('susp:cl-target', '%s: second CL pointing to %s' % (path, tgt))
        else:
            holder[tgt] = pv.tree[path].parent.path
    for path, e in vol.entries.items():
        if e.re and path not in holder:
            vol.prob('susp:cl-target', '%s carries RE but no CL points to it' % path)
    for path, (d0, d1) in vol.dots.items():
        if path in holder:
            want = pv.dirs[holder[path]].extent
            if d1.pl != want:
                vol.prob('susp:pl-target', '%s/..: PL %r, the CL placeholder lives in %s at extent %d' % (path, d1.pl, holder[path], want))
        elif d1.pl is not None:
            vol.prob('susp:pl-target', '%s/..: PL %d on a directory that is not relocated' % (path, d1.pl))
        if d0.pl is not None:
            vol.prob('susp:pl-target', '%s/.: PL on a "." record' % path)
    vol.holder = holder


def _link_counts(pv, vol):
    """A directory's link count: 2 + number of directory-like entries physically recorded in it
    (sub-directories incl. relocated ones in the relocation directory, and CL placeholders);
    the same number in the parent's record for it, in its "." and in every child's ".."."""
    kids = {p: 0 for p in pv.dirs}
    for path, node in pv.tree.items():
        if path == '/' or node.parent.path not in kids:
            continue
        e = vol.entries.get(path)
        if node.kind == 'dir' or (e is not None and e.cl is not None):
            kids[node.parent.path] += 1
    for path, info in pv.dirs.items():
        if path not in vol.dots:
            continue
        seen = [('"."', vol.dots[path][0].nlink)]
        if path == '/':
            seen.append(('".."', vol.dots[path][1].nlink))
        else:
            seen.append(('parent entry', vol.entries[path].nlink))
        for cp, cinfo in pv.dirs.items():
            if cp != '/' and cinfo.parent_path == path and cp in vol.dots:
                seen.append(('%s/..' % cp, vol.dots[cp][1].nlink))
        vals = set(v for _, v in seen if v is not None)
        if not vals:
            continue
        if len(vals) > 1 or vals != {2 + kids[path]}:
            vol.prob('px:nlink:dir', '%s: expected %d, recorded %s' % (path, 2 + kids[path], ', '.join('%s=%s' % s for s in seen)))


def _logical(pv, vol):
    by_extent = {info.extent: p for p, info in pv.dirs.items()}
    children = {}
    for path, node in pv.tree.items():
        if path != '/':
            children.setdefault(node.parent.path, []).append(path)

    def make(lpath, kind, iso_path, e):
        n = LNode()
        node = pv.tree[iso_path]
        n.kind, n.path, n.iso_path = kind, lpath, iso_path
        n.mode, n.nlink, n.target = (e.mode, e.nlink, e.target) if e is not None else (None, None, None)
        n.extent, n.length, n.hidden = node.extent, node.length, bool(node.flags & 1)
        vol.logical[lpath] = n

    make('/', 'dir', '/', vol.dots['/'][0])
    stack, visited = [('/', '/')], {'/'}
    while stack:
        ipath, lpath = stack.pop()
        for cp in children.get(ipath, ()):
            e = vol.entries[cp]
            if e.re:
                continue
            name = e.name.decode('utf-8', 'surrogateescape') if e.name is not None else pv.tree[cp].name
            lp = (lpath if lpath != '/' else '') + '/' + name
            src = cp
            if e.cl is not None:
                src = by_extent.get(e.cl)
                if src is None or src not in vol.entries:
                    continue
            if pv.tree[src].kind == 'dir':
                if src in visited:
                    continue
                visited.add(src)
                make(lp, 'dir', src, vol.entries[src])
                stack.append((src, lp))
            else:
                make(lp, 'symlink' if e.is_symlink else 'file', src, e)


def _extents(vol, everything):
    areas = []
    sectors = set()
    for e in everything:
        for i, (a, b) in enumerate(e.ce_areas):
            if b <= a:
                continue
            has_er = e.er is not None and any(s == 'ER' and a <= o < b for (s, _), o in zip(e.raw_entries, e.offsets))
            vol.extent_map.append(('rr-er' if has_er else 'rr-ce', e.where, a, b))
            areas.append((a, b, e.where))
            sectors.update(range(a // SECTOR, (b - 1) // SECTOR + 1))
    for sct in sorted(sectors):
        vol.extent_map.append(('rr-ce-sector', str(sct), sct * SECTOR, (sct + 1) * SECTOR))
    areas.sort()
    end, who = -1, None
    for a, b, where in areas:
        if a < end and where != who:
            vol.prob('susp:ce-overlap', '%s [%d,%d) overlaps the continuation area of %s ending at %d' % (where, a, b, who, end))
        if b > end:
            end, who = b, where
