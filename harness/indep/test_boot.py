"""Self-test of the independent El Torito / isohybrid decoders.

    cd /verif && PYTHONPATH=/repo:/verif /venv/bin/python harness/indep/test_boot.py

pycdlib is used here ONLY to generate images; the decoders never import it.
Exits 0 when every case is clean or matches KNOWN_LIBRARY_ISSUES exactly.
"""
import io
import logging
import os
import random
import shutil
import struct
import sys
import tempfile
import time
import zlib

import pycdlib

from harness.indep import eltorito as ET
from harness.indep import hybrid as HY

logging.getLogger('pycdlib').setLevel(logging.ERROR)

# Cases where the decoder is right and the library is wrong.  case -> labels that are
# expected (and tolerated).  A label is 'problem:<key>' or 'value:<what>'.
# L1  GPT partition-array CRC32 is computed over the used entries only, not num_parts*part_size bytes
# L2  primary and backup GPT get independent random disk GUIDs and unique partition GUIDs
#     (so the arrays, and therefore their CRCs, differ as well)
# L3  mac=True: the Mac partition is recorded in the primary GPT array only (backup keeps 0..0)
# L4  mac=True: the three APM entries keep start block = block count = 0
# L5  two EFI sections: the first (EFI) partition gets the sector count of the *last* catalog entry
#     in the GPT arrays and in MBR entry 2
# L6  rm_eltorito() leaves the 56-byte boot info table patched into the former boot file
# L7  a catalog with 31 sections (exactly 2048 bytes) is written correctly but cannot be re-opened
_GPT = {'problem:gpt:arr-crc', 'problem:gpt:mirror:disk_guid', 'problem:gpt:mirror:array',
        'problem:gpt:mirror:array_crc'}                                                  # L1 L2
_MAC = _GPT | {'value:backup:mac-gpt-start', 'value:backup:mac-gpt-len',                 # L3
               'problem:apm:range', 'value:apm-efi', 'value:apm-mac'}                    # L4
KNOWN_LIBRARY_ISSUES = {
    'hybrid/efi': _GPT, 'hybrid/efi-big': _GPT, 'hybrid/efi-geom': _GPT, 'hybrid/efi-reopen': _GPT,
    'hybrid/mac-samesize': _MAC,
    'hybrid/mac': _MAC | {'value:primary:efi-gpt-len', 'value:backup:efi-gpt-len', 'value:efi-mbr-len'},   # L5
    'eltorito/rm-bootinfo': {'value:file-restored-after-rm'},                            # L6
    'eltorito/sections-31': {'value:pycdlib-reopen'},                                    # L7
}

SCRATCH = None
RESULTS = []     # (case, status, labels)
TINY = {}        # marker id -> content of boot files too short to carry a marker


class Disk(object):
    """Slice-only view, to prove the decoders never iterate or copy the whole image."""
    def __init__(self, data, max_slice=4 << 20):
        self._d = data
        self._max = max_slice

    def __len__(self):
        return len(self._d)

    def __getitem__(self, key):
        if not isinstance(key, slice) or key.step not in (None, 1):
            raise TypeError('Disk supports plain slices only')
        a, b, _ = key.indices(len(self._d))
        if b - a > self._max:
            raise ValueError('slice of %d bytes requested' % (b - a))
        return bytes(self._d[a:b])


def marker(i):
    return b'#M%05d~' % i


def bootfile(i, size, isolinux=False, hdmbr=None):
    """A boot file of `size` bytes starting with a unique 8-byte marker."""
    b = bytearray(os.urandom(size)) if size < 70000 else bytearray((b'%06d' % i) * (size // 6 + 1))[:size]
    # keep markers unique: no '#' anywhere else
    b = bytearray(bytes(b).replace(b'#', b'$'))
    b[0:8] = marker(i)[:size]
    TINY.pop(i, None)
    if size < 8:
        TINY[i] = bytes(b[:size])
    if isolinux:
        b[0x40:0x44] = b'\xfb\xc0\x78\x70'
    if hdmbr is not None:
        b[446:512] = hdmbr
    return bytes(b[:size])


def new_iso(**kw):
    iso = pycdlib.PyCdlib()
    iso.new(**kw)
    return iso


def add(iso, data, name, kw):
    args = {}
    if kw.get('rock_ridge'):
        args['rr_name'] = name.lower()
    if kw.get('joliet'):
        args['joliet_path'] = '/' + name.lower()
    if kw.get('udf'):
        args['udf_path'] = '/' + name.lower()
    iso.add_fp(io.BytesIO(data), len(data), '/%s.;1' % name, **args)
    return '/%s.;1' % name


def write(iso, close=True):
    out = io.BytesIO()
    iso.write_fp(out)
    if close:
        iso.close()
    return out.getvalue()


class Case(object):
    def __init__(self, name):
        self.name = name
        self.labels = []

    def problems(self, dec):
        for k, d in dec.problems:
            self.labels.append(('problem:' + k, d))

    def eq(self, what, got, want):
        if got != want:
            self.labels.append(('value:' + what, 'got %r want %r' % (got, want)))

    def done(self):
        got = set(l for l, _ in self.labels)
        known = KNOWN_LIBRARY_ISSUES.get(self.name, set())
        if not got and not known:
            status = 'ok'
        elif got and got <= known:
            status = 'KNOWN' if got == known else 'KNOWN(partial)'
        elif not got and known:
            status = 'KNOWN(not reproduced)'
        else:
            status = 'FAIL'
        RESULTS.append((self.name, status, self.labels))
        if status != 'ok':
            print('%-28s %s' % (self.name, status))
            for l, d in self.labels:
                print('      %s%s: %s' % ('' if l in known else '!! ', l, d))
        return status


def find(img, i):
    if i in TINY:      # file shorter than a marker: find its zero-padded sector instead
        pat = TINY[i].ljust(2048, b'\x00')
        hits = [o for o in range(0, len(img), 2048) if img[o:o + 2048] == pat]
        assert len(hits) == 1, 'tiny file %d not unique' % i
        return hits[0]
    pos = img.find(marker(i))
    assert pos >= 0 and img.find(marker(i), pos + 1) < 0, 'marker %d not unique' % i
    return pos


def check_entry(c, img, e, i, flen, tag, media=0, indicator=0x88, count=None, seg=0, system_type=0):
    c.eq(tag + ':rba', e.load_rba * 2048, find(img, i))
    c.eq(tag + ':media', e.media, media)
    c.eq(tag + ':indicator', e.indicator, indicator)
    c.eq(tag + ':count', e.sector_count, count if count is not None else -(-flen // 2048) * 4)
    c.eq(tag + ':seg', e.load_segment, seg)
    c.eq(tag + ':systype', e.system_type, system_type)
    c.eq(tag + ':offset', img[e.offset:e.offset + 32], e.raw)


# --------------------------------------------------------------------------- El Torito

def et_simple(name, size, newkw=None, etkw=None, expect=None, platform=0):
    newkw = newkw or {}
    etkw = dict(etkw or {})
    expect = expect or {}
    c = Case(name)
    iso = new_iso(**newkw)
    data = bootfile(1, size, hdmbr=expect.pop('hdmbr', None))
    path = add(iso, data, 'BOOT', newkw)
    other = bootfile(2, 3000)
    add(iso, other, 'OTHER', newkw)
    cat = {}
    if newkw.get('joliet'):
        cat['joliet_bootcatfile'] = '/boot.cat'
    if newkw.get('udf'):
        cat['udf_bootcatfile'] = '/boot.cat'
    if newkw.get('rock_ridge'):
        cat['rr_bootcatname'] = 'boot.cat'
    iso.add_eltorito(path, '/BOOT.CAT;1', platform_id=platform, **cat, **etkw)
    img = write(iso)
    et = ET.decode(Disk(img), catalog_len=2048)
    c.problems(et)
    c.eq('present', et.present, True)
    if et.present and et.initial is not None:
        c.eq('br_sector', et.br_sector, 17)
        c.eq('platform', et.validation['platform_id'], platform)
        c.eq('sections', len(et.sections), 0)
        c.eq('catalog_bytes', et.catalog_bytes, img[et.catalog_lba * 2048:et.catalog_lba * 2048 + 2048])
        c.eq('extent_map', et.extent_map, [('boot-record', 'br', 17 * 2048, 18 * 2048),
                                           ('boot-catalog', 'catalog', et.catalog_lba * 2048,
                                            et.catalog_lba * 2048 + 2048)])
        check_entry(c, img, et.initial, 1, size, 'initial', **expect)
        start = find(img, 1)
        if etkw.get('boot_info_table'):
            t = ET.boot_info_table(Disk(img), start, size)
            c.eq('bit:pvd', t['pvd_lba'], 16)
            c.eq('bit:lba', t['file_lba'], et.initial.load_rba)
            c.eq('bit:len', t['file_len'], size)
            c.eq('bit:csum', t['checksum'], ET.boot_info_checksum(Disk(img), start, size))
            c.eq('bit:reserved', t['reserved'], b'\x00' * 40)
            # reference checksum computed the slow, obvious way
            ref = 0
            body = data[64:] + b'\x00' * (-(len(data) - 64) % 4)
            for k in range(0, len(body), 4):
                ref = (ref + int.from_bytes(body[k:k + 4], 'little')) & 0xffffffff
            c.eq('bit:csum-ref', t['checksum'], ref)
            c.eq('bit:rest', img[start + 64:start + size], data[64:])
        else:
            c.eq('file-bytes', img[start:start + size], data)
    return c.done()


def et_sections(name, nsec, newkw=None, efi_every=0):
    """nsec sections = nsec+1 boot files."""
    newkw = newkw or {}
    c = Case(name)
    iso = new_iso(**newkw)
    sizes = []
    for i in range(nsec + 1):
        size = 100 + 700 * i
        sizes.append(size)
        add(iso, bootfile(i, size), 'B%02d' % i, newkw)
    want_plat = []
    for i in range(nsec + 1):
        efi = bool(efi_every) and i > 0 and i % efi_every == 0
        iso.add_eltorito('/B%02d.;1' % i, '/BOOT.CAT;1', efi=efi)
        want_plat.append(0xef if efi else 0)
    img = write(iso)
    et = ET.decode(Disk(img), catalog_len=2048)
    c.problems(et)
    c.eq('nsections', len(et.sections), nsec)
    c.eq('nentries', len(et.all_entries()), nsec + 1)
    c.eq('used', et.used_entries, 2 + 2 * nsec)
    for k, sec in enumerate(et.sections):
        c.eq('sec%d:ind' % k, sec.header_indicator, 0x91 if k == nsec - 1 else 0x90)
        c.eq('sec%d:n' % k, (sec.num_entries, len(sec.entries)), (1, 1))
        c.eq('sec%d:platform' % k, sec.platform_id, want_plat[k + 1])
    for i, e in enumerate(et.all_entries()):
        check_entry(c, img, e, i, sizes[i], 'e%d' % i)
    if nsec >= 30:
        try:
            chk = pycdlib.PyCdlib()
            chk.open_fp(io.BytesIO(img))
            got = len(chk.eltorito_boot_catalog.sections)
            chk.close()
        except Exception as exc:
            got = repr(exc)
        c.eq('pycdlib-reopen', got, nsec)
    # whatever follows the catalog sector must not have been overwritten by catalog bytes
    nxt = (et.catalog_lba + 1) * 2048
    c.eq('sector-after-catalog-not-entry', img[nxt:nxt + 1] in (b'\x88', b'\x90', b'\x91') and
         img[nxt + 32:nxt + 33] in (b'\x88', b'\x90', b'\x91'), False)
    return c.done(), img, et


def et_rm():
    c = Case('eltorito/rm-bootinfo')
    iso = new_iso()
    data = bootfile(1, 5000)
    add(iso, data, 'BOOT', {})
    iso.add_eltorito('/BOOT.;1', '/BOOT.CAT;1', boot_info_table=True)
    img1 = write(iso, close=False)
    iso.rm_eltorito()
    img2 = write(iso)
    et = ET.decode(Disk(img2))
    c.eq('present-after-rm', et.present, False)
    c.eq('problems-after-rm', et.problems, [])
    s = find(img2, 1)
    c.eq('file-restored-after-rm', img2[s:s + 5000] == data, True)
    return c.done()


def et_reopen():
    c = Case('eltorito/reopen')
    iso = new_iso(joliet=3, rock_ridge='1.09')
    for i in range(3):
        add(iso, bootfile(i, 2500 + i), 'B%02d' % i, {'joliet': 3, 'rock_ridge': '1.09'})
        iso.add_eltorito('/B%02d.;1' % i, '/BOOT.CAT;1', boot_info_table=(i == 0))
    img1 = write(iso)
    p = os.path.join(SCRATCH, 'reopen.iso')
    with open(p, 'wb') as f:
        f.write(img1)
    iso = pycdlib.PyCdlib()
    iso.open(p)
    img2 = write(iso)
    c.eq('reopen-identical', img2 == img1, True)
    et = ET.decode(Disk(img2), catalog_len=2048)
    c.problems(et)
    c.eq('nsections', len(et.sections), 2)
    return c.done()


# --------------------------------------------------------------------------- isohybrid

def hy_case(name, hykw=None, efi=False, mac=False, efi_size=7000, mac_size=21000, big=0, reopen=False):
    hykw = dict(hykw or {})
    c = Case(name)
    iso = new_iso()
    iso_size, = 3000,
    add(iso, bootfile(1, iso_size, isolinux=True), 'ISOLINUX', {})
    add(iso, bootfile(2, efi_size), 'EFIBOOT', {})
    add(iso, bootfile(3, mac_size), 'MACBOOT', {})
    if big:
        add(iso, bootfile(4, big), 'BIG', {})
    iso.add_eltorito('/ISOLINUX.;1', '/BOOT.CAT;1', boot_load_size=4, boot_info_table=True)
    if efi or mac:
        iso.add_eltorito('/EFIBOOT.;1', efi=True)
    if mac:
        iso.add_eltorito('/MACBOOT.;1', efi=True)
    if efi or mac:
        hykw.update(mac=mac, efi=True)
    iso.add_isohybrid(**hykw)
    img = write(iso)
    if reopen:
        p = os.path.join(SCRATCH, 'hy.iso')
        with open(p, 'wb') as f:
            f.write(img)
        iso = pycdlib.PyCdlib()
        iso.open(p)
        img2 = write(iso)
        c.eq('reopen-identical', img2 == img, True)
        img = img2
    et = ET.decode(Disk(img), catalog_len=2048)
    c.problems(et)
    hy = HY.decode(Disk(img))
    c.problems(hy)
    c.eq('present', hy.present, True)
    H, S = hykw.get('geometry_heads', 64), hykw.get('geometry_sectors', 32)
    off = hykw.get('part_offset', 0)
    pe = hykw.get('part_entry', 1)
    m = hy.mbr
    c.eq('geometry', (m.get('geometry_heads'), m.get('geometry_sectors')), (H, S))
    c.eq('cylinders', m.get('cylinders'), min(len(img) // (H * S * 512), 1024))
    c.eq('active-index', m.get('active_index'), pe - 1)
    act = m['parts'][pe - 1]
    c.eq('part-lba', act['lba'], off)
    c.eq('part-type', act['type'], hykw.get('part_type', 0 if (efi or mac) else 0x17))
    if 'mbr_id' in hykw:
        c.eq('mbr_id', m['mbr_id'], hykw['mbr_id'])
    c.eq('boot-rba', m['boot_rba_512'] * 512, find(img, 1))
    c.eq('initial-rba', et.initial.load_rba * 2048, find(img, 1))
    c.eq('extent:mbr', hy.extent_map[0], ('mbr', 'mbr', 0, 512))
    last = len(img) // 512 - 1
    if not (efi or mac):
        c.eq('no-gpt', (hy.gpt_primary, hy.gpt_backup, hy.apm), (None, None, []))
        c.eq('other-parts-empty', [p['empty'] for i, p in enumerate(m['parts']) if i != pe - 1], [True] * 3)
        return c.done()
    efi_pos, efi_secs = find(img, 2), -(-efi_size // 2048) * 4
    mac_pos, mac_secs = find(img, 3), -(-mac_size // 2048) * 4
    iso_last = struct.unpack_from('<I', img, 16 * 2048 + 80)[0] * 4 - 1
    for which, g in (('primary', hy.gpt_primary), ('backup', hy.gpt_backup)):
        if g is None:
            c.eq('gpt-' + which, None, 'a header')
            continue
        c.eq(which + ':hdr-crc', g['crc_ok'], True)
        c.eq(which + ':nparts', len(g['parts']), 3 if mac else 2)
        if len(g['parts']) >= 2:
            c.eq(which + ':iso-part', (g['parts'][0]['first'], g['parts'][0]['last']), (0, iso_last))
            c.eq(which + ':efi-gpt-start', g['parts'][1]['first'] * 512, efi_pos)
            c.eq(which + ':efi-gpt-len', g['parts'][1]['last'] - g['parts'][1]['first'] + 1, efi_secs)
        if mac and len(g['parts']) >= 3:
            c.eq(which + ':mac-gpt-start', g['parts'][2]['first'] * 512, mac_pos)
            c.eq(which + ':mac-gpt-len', g['parts'][2]['last'] - g['parts'][2]['first'] + 1, mac_secs)
    if hy.gpt_primary and hy.gpt_backup:
        c.eq('gpt-lbas', (hy.gpt_primary['current'], hy.gpt_primary['backup'], hy.gpt_backup['current'],
                          hy.gpt_backup['backup']), (1, last, last, 1))
        kinds = [(k, i) for k, i, _, _ in hy.extent_map]
        for want in (('gpt-hdr', 'primary'), ('gpt-array', 'primary'), ('gpt-hdr', 'backup'), ('gpt-array', 'backup')):
            c.eq('extent:%s:%s' % want, want in kinds, True)
    p2 = m['parts'][1]
    c.eq('efi-mbr', (p2['type'], p2['lba'] * 512), (0xef, efi_pos))
    c.eq('efi-mbr-len', p2['sectors'], efi_secs)
    if mac:
        p3 = m['parts'][2]
        c.eq('mac-mbr', (p3['type'], p3['lba'] * 512, p3['sectors']), (0, mac_pos, mac_secs))
        c.eq('apm-n', len(hy.apm), 3)
        c.eq('apm-bs', hy.apm_block_size, 2048)
        if len(hy.apm) == 3:
            c.eq('apm-map', (hy.apm[0]['type'], hy.apm[0]['map_count']), ('Apple_partition_map', 3))
            c.eq('apm-efi', (hy.apm[1]['start'] * 2048, hy.apm[1]['count']), (efi_pos, efi_secs // 4))
            c.eq('apm-mac', (hy.apm[2]['start'] * 2048, hy.apm[2]['count']), (mac_pos, mac_secs // 4))
    else:
        c.eq('no-apm', hy.apm, [])
    return c.done()


# --------------------------------------------------------------------------- corruption

def base_images():
    iso = new_iso()
    for i in range(3):
        add(iso, bootfile(i, 3000, isolinux=(i == 0)), 'B%02d' % i, {})
    iso.add_eltorito('/B00.;1', '/BOOT.CAT;1', boot_load_size=4)
    iso.add_eltorito('/B01.;1', efi=True)
    iso.add_eltorito('/B02.;1', efi=True)
    iso.add_isohybrid(mac=True, efi=True)
    return write(iso)


def fix_known(img):
    """Repair the known library defects in a mac/efi image so that corruption tests start clean."""
    b = bytearray(img)
    last = len(b) // 512 - 1
    # backup array := primary array; disk guid := primary's; recompute backup crcs
    elba, num, size = struct.unpack_from('<QII', b, 512 + 72)
    arr = bytes(b[elba * 512:elba * 512 + num * size])
    belba = struct.unpack_from('<Q', b, last * 512 + 72)[0]
    b[belba * 512:belba * 512 + len(arr)] = arr
    b[last * 512 + 56:last * 512 + 72] = b[512 + 56:512 + 72]
    for lba in (1, last):
        struct.pack_into('<I', b, lba * 512 + 88, zlib.crc32(arr) & 0xffffffff)
        fix_crc(b, lba)
    # APM: give the entries a non-empty range
    for i, (s, cnt) in enumerate(((1, 3), (30, 2), (32, 2)), 1):
        struct.pack_into('>II', b, 2048 * i + 8, s, cnt)
    return b


def fix_crc(b, lba):
    struct.pack_into('<I', b, lba * 512 + 16, 0)
    struct.pack_into('<I', b, lba * 512 + 16, zlib.crc32(bytes(b[lba * 512:lba * 512 + 92])) & 0xffffffff)


def corruption_tests():
    c = Case('corruption/targeted')
    good = fix_known(base_images())
    et0, hy0 = ET.decode(Disk(good)), HY.decode(Disk(good))
    c.eq('baseline-et', et0.problems, [])
    c.eq('baseline-hy', hy0.problems, [])
    cat = et0.catalog_lba * 2048
    last = len(good) // 512 - 1
    act = 446

    def w(off, data):
        def f(b):
            b[off:off + len(data)] = data
        return f

    def gpt_field(lba, off, data, recrc=True):
        def f(b):
            b[lba * 512 + off:lba * 512 + off + len(data)] = data
            if recrc:
                fix_crc(b, lba)
        return f

    def move_br(b):
        b[19 * 2048:20 * 2048] = b[18 * 2048:19 * 2048]
        b[18 * 2048:19 * 2048] = b[17 * 2048:18 * 2048]
        b[17 * 2048:18 * 2048] = b'\x02' + b[16 * 2048 + 1:17 * 2048]

    def dup_br(b):
        b[19 * 2048:20 * 2048] = b[18 * 2048:19 * 2048]
        b[18 * 2048:19 * 2048] = b[17 * 2048:18 * 2048]

    def overflow(b):
        b[cat + 130:cat + 132] = struct.pack('<H', 70)
        for k in range(70):
            b[cat + 160 + 32 * k:cat + 192 + 32 * k] = b[cat + 96:cat + 128]
        b[cat + 160 + 32 * 70:cat + 4096] = b'\x00' * (4096 - 160 - 32 * 70)

    et_cases = [
        ('br:not-at-17', move_br), ('br:dup', dup_br),
        ('catalog:oob', w(17 * 2048 + 71, struct.pack('<I', len(good) // 2048 + 5))),
        ('validation:header', w(cat, b'\x02')), ('validation:key', w(cat + 30, b'\x55\xab')),
        ('validation:checksum', w(cat + 28, b'\x00\x00')), ('validation:reserved', w(cat + 2, b'\x01')),
        ('initial:indicator', w(cat + 32, b'\x77')), ('entry:media', w(cat + 33, b'\x05')),
        ('entry:media', w(cat + 160 + 1, b'\x0f')),
        ('section:header', w(cat + 64, b'\x92')), ('section:header', w(cat + 128, b'\x90')),
        ('section:header', w(cat + 64, b'\x91')),
        ('section:count', w(cat + 66, b'\x02\x00')), ('section:count', w(cat + 130, b'\x03\x00')),
        ('section:count', w(cat + 192, b'\x88' + b'\x00' * 31)),
        ('entry:oob', w(cat + 40, struct.pack('<I', len(good) // 2048))),
        ('entry:oob', w(cat + 96 + 8, b'\xff\xff\xff\x7f')),
        ('catalog:overflow', overflow), ('section:count', w(cat + 130, b'\xff\xff')),
    ]
    for key, fn in et_cases:
        b = bytearray(good)
        fn(b)
        try:
            dec = ET.decode(Disk(bytes(b)), catalog_len=2048)
            keys = dec.problem_keys()
            if fn is overflow:
                c.eq('overflow:catalog_bytes', (len(dec.catalog_bytes), dec.used_entries, len(dec.all_entries())),
                     (4096, 75, 72))
                c.eq('overflow:unbounded', ET.decode(Disk(bytes(b))).problem_keys(), [])
        except Exception as exc:
            keys = ['EXC %r' % exc]
        c.eq('et:' + key, key in keys, True)
        if key not in keys:
            c.labels.append(('value:et:' + key + ':got', repr(keys)))

    hy_cases = [
        ('mbr:sig', w(510, b'\x55\xab')), ('mbr:active', w(act, b'\x00')), ('mbr:active', w(act + 16, b'\x80')),
        ('mbr:chs', w(act + 7, b'\x05')), ('mbr:chs', w(act + 1, b'\x01')), ('mbr:chs', w(act + 2, b'\x02')),
        ('mbr:size', w(act + 12, struct.pack('<I', len(good) // 512 - 1))),
        ('mbr:size', w(act + 8, struct.pack('<I', 4))),
        ('mbr:rba', w(432, struct.pack('<I', 121))), ('mbr:rba', w(432, struct.pack('<I', len(good) // 512 + 4))),
        ('pad', w(act + 5, b'\x7f')), ('pad', lambda b: b.extend(b'\x00' * 2048)),
        ('gpt:sig', w(512, b'XFI PART')), ('gpt:sig', w(last * 512, b'EFI PARX')),
        ('gpt:hdr-crc', w(512 + 40, b'\x23')), ('gpt:hdr-crc', w(last * 512 + 16, b'\x00\x00\x00\x00')),
        ('gpt:arr-crc', w(16 * 512 + 130, b'\x99')), ('gpt:arr-crc', gpt_field(last, 88, b'\x01\x02\x03\x04')),
        ('gpt:mirror:disk_guid', gpt_field(last, 56, b'G' * 16)),
        ('gpt:mirror:first_usable', gpt_field(1, 40, struct.pack('<Q', 0x31))),
        ('gpt:mirror:last_usable', gpt_field(last, 48, struct.pack('<Q', 0x7dd))),
        ('gpt:mirror:num_parts', gpt_field(last, 80, struct.pack('<I', 64))),
        ('gpt:mirror:lbas', gpt_field(1, 24, struct.pack('<Q', 2))),
        ('gpt:mirror:lbas', gpt_field(last, 32, struct.pack('<Q', 3))),
        ('gpt:mirror:array', w((last - 32) * 512 + 128 + 40, b'\x70')),
        ('gpt:backup-pos', lambda b: b.extend(b'\x00' * (1 << 20))),
        ('gpt:backup-pos', gpt_field(1, 32, struct.pack('<Q', last - 1))),
        ('gpt:part:1:range', w(16 * 512 + 128 + 32, struct.pack('<Q', 5000))),
        ('gpt:part:0:range', w(16 * 512 + 40, struct.pack('<Q', 0x7e0))),
        ('apm:sig', w(4096, b'XM')), ('apm:sig', w(2048, b'QM')),
        ('apm:count', w(4096 + 4, struct.pack('>I', 2))), ('apm:count', w(8192, b'PM\x00\x00')),
        ('apm:range', w(6144 + 8, struct.pack('>II', 500, 100))), ('apm:range', w(4096 + 12, struct.pack('>I', 0))),
    ]
    for key, fn in hy_cases:
        b = bytearray(good)
        fn(b)
        try:
            keys = HY.decode(Disk(bytes(b))).problem_keys()
        except Exception as exc:
            keys = ['EXC %r' % exc]
        c.eq('hy:' + key, key in keys, True)
        if key not in keys:
            c.labels.append(('value:hy:' + key + ':got', repr(keys)))
    # a foreign MBR is simply "not isohybrid"
    b = bytearray(good)
    b[0:2] = b'\xeb\x3c'
    h = HY.decode(Disk(bytes(b)))
    c.eq('foreign-mbr', (h.present, h.problems), (False, []))
    # degenerate inputs
    for blob in (b'', b'\x00' * 100, b'\x00' * 2048 * 16, b'\x00' * 2048 * 18, good[:17 * 2048 + 100], good[:cat + 40]):
        try:
            ET.decode(Disk(blob)); HY.decode(Disk(blob))
            ET.boot_info_table(Disk(blob), 10, 100); ET.boot_info_checksum(Disk(blob), 10, 100)
        except Exception as exc:
            c.labels.append(('value:degenerate', 'len %d: %r' % (len(blob), exc)))
    return c.done(), good, cat


class SparseDisk(object):
    """A huge all-zero image with a few byte ranges filled in; slice-only like Disk."""
    def __init__(self, length, chunks):
        self._len = length
        self._chunks = sorted(chunks.items())

    def __len__(self):
        return self._len

    def __getitem__(self, key):
        if not isinstance(key, slice) or key.step not in (None, 1):
            raise TypeError('SparseDisk supports plain slices only')
        a, b, _ = key.indices(self._len)
        if b - a > (4 << 20):
            raise ValueError('slice of %d bytes requested' % (b - a))
        out = bytearray(max(0, b - a))
        for off, data in self._chunks:
            lo, hi = max(a, off), min(b, off + len(data))
            if lo < hi:
                out[lo - a:hi - a] = data[lo - off:hi - off]
        return bytes(out)


def virtual_disk(good):
    """The repaired mac/efi image stretched to 5 GiB: 64-bit LBAs, cylinder clamp, slice-only access."""
    c = Case('virtual/5GiB')
    size = 5 << 30
    n512 = size // 512
    old_last = len(good) // 512 - 1
    head = bytearray(good[:len(good) - 33 * 512])
    tail = bytearray(good[len(good) - 33 * 512:])          # backup array + backup header
    act = 446
    head[act + 5:act + 8] = bytes([63, 32 | 0xc0, 0xff])       # end CHS: cylinder 1023
    struct.pack_into('<I', head, act + 12, n512)
    struct.pack_into('<Q', head, 512 + 32, n512 - 1)           # primary.backup
    struct.pack_into('<Q', tail, 32 * 512 + 24, n512 - 1)      # backup.current
    struct.pack_into('<Q', tail, 32 * 512 + 72, n512 - 33)     # backup.entries_lba
    for buf, base in ((head, 512), (tail, 32 * 512)):
        struct.pack_into('<Q', buf, base + 48, n512 - 34)      # last usable
        struct.pack_into('<I', buf, base + 16, 0)
        struct.pack_into('<I', buf, base + 16, zlib.crc32(bytes(buf[base:base + 92])) & 0xffffffff)
    d = SparseDisk(size, {0: bytes(head), size - len(tail): bytes(tail)})
    t = time.time()
    hy = HY.decode(d)
    et = ET.decode(d, catalog_len=2048)
    c.problems(hy)
    c.problems(et)
    c.eq('present', (hy.present, et.present), (True, True))
    c.eq('cylinders', hy.mbr['cylinders'], 1024)
    c.eq('backup-lba', hy.gpt_backup and hy.gpt_backup['header_lba'], n512 - 1)
    c.eq('backup-extent', [e for e in hy.extent_map if e[:2] == ('gpt-array', 'backup')],
         [('gpt-array', 'backup', size - 33 * 512, size - 512)])
    c.eq('csum-1GiB', ET.boot_info_checksum(d, 1 << 30, 1 << 30), 0)
    c.eq('fast', time.time() - t < 20, True)
    return c.done()


def fuzz(good, cat, iters=3000, seed=20261002):
    c = Case('corruption/fuzz')
    rnd = random.Random(seed)
    region = list(range(0, 21 * 2048)) + list(range(cat, cat + 2048))
    tail = len(good) - 40 * 512
    b = bytearray(good)
    seen = set()
    for it in range(iters):
        saved = []
        for _ in range(rnd.choice((1, 1, 2, 4, 16))):
            pos = rnd.choice(region) if rnd.random() < 0.85 else rnd.randrange(tail, len(good))
            saved.append((pos, b[pos]))
            b[pos] = rnd.randrange(256) if rnd.random() < 0.7 else rnd.choice((0, 0xff, 0x90, 0x91, 0x88, 1))
        d = Disk(b)
        try:
            e = ET.decode(d, catalog_len=2048)
            h = HY.decode(d)
            e.all_entries()
            seen.update(e.problem_keys())
            seen.update(h.problem_keys())
            if any(k.startswith('decode:') and 'gpt-array' not in k for k in e.problem_keys() + h.problem_keys()):
                c.labels.append(('value:fuzz-internal', '%d: %r %r' % (it, e.problems, h.problems)))
        except Exception as exc:
            c.labels.append(('value:fuzz-raise', 'iteration %d: %r' % (it, exc)))
        for pos, old in reversed(saved):
            b[pos] = old
    c.eq('restored', bytes(b) == bytes(good), True)
    print('fuzz: %d iterations, %d distinct problem keys seen' % (iters, len(seen)))
    return c.done()


# --------------------------------------------------------------------------- main

def hd_mbr(ptype=0x0c, status=0x80):
    e = bytes([status, 1, 1, 0, ptype, 1, 1, 1]) + struct.pack('<II', 1, 3)
    return e + b'\x00' * 48 + b'\x55\xaa'


def main():
    global SCRATCH
    t0 = time.time()
    SCRATCH = tempfile.mkdtemp(prefix='test_boot_')
    try:
        for size in (1, 63, 2048, 2049, 5000, 100000):
            et_simple('eltorito/noemul-%d' % size, size)
        et_simple('eltorito/loadsize', 5000, etkw={'boot_load_size': 7, 'boot_load_seg': 0x7c0, 'bootable': False},
                  expect={'count': 7, 'seg': 0x7c0, 'indicator': 0})
        for size in (64, 100, 2048, 5001, 70001):
            et_simple('eltorito/bootinfo-%d' % size, size, etkw={'boot_info_table': True})
        for media, size in ((1, 1228800), (2, 1474560), (3, 2949120)):
            et_simple('eltorito/floppy-%d' % media, size, etkw={'media_name': 'floppy'},
                      expect={'media': media, 'count': 1})
        et_simple('eltorito/hdemul', 4096, etkw={'media_name': 'hdemul'},
                  expect={'media': 4, 'system_type': 0x0c, 'hdmbr': hd_mbr(0x0c), 'count': 1})
        et_simple('eltorito/hdemul-83', 512, etkw={'media_name': 'hdemul', 'bootable': False},
                  expect={'media': 4, 'system_type': 0x83, 'hdmbr': hd_mbr(0x83, 0), 'count': 1, 'indicator': 0})
        for plat in (0, 1, 2, 0xef):
            et_simple('eltorito/platform-%x' % plat, 3000, platform=plat)
        for tag, kw in (('joliet', {'joliet': 3}), ('rr', {'rock_ridge': '1.09'}), ('udf', {'udf': '2.60'}),
                        ('all', {'joliet': 3, 'rock_ridge': '1.12', 'udf': '2.60'}),
                        ('il4', {'interchange_level': 4})):
            et_simple('eltorito/fs-' + tag, 4000, newkw=kw, etkw={'boot_info_table': True})
        for n in (1, 2, 5, 30, 31):
            et_sections('eltorito/sections-%d' % n, n, efi_every=3 if n == 5 else 0)
        et_sections('eltorito/sections-4-udf-rr', 4, newkw={'udf': '2.60', 'rock_ridge': '1.09'})
        et_rm()
        et_reopen()

        hy_case('hybrid/default')
        hy_case('hybrid/geom', {'geometry_sectors': 63, 'geometry_heads': 255})
        hy_case('hybrid/geom-tiny', {'geometry_sectors': 1, 'geometry_heads': 1})
        hy_case('hybrid/geom-big', {'geometry_sectors': 17, 'geometry_heads': 4}, big=3 << 20)
        for pe in (2, 3, 4):
            hy_case('hybrid/entry-%d' % pe, {'part_entry': pe, 'mbr_id': 0x12345678 + pe, 'part_type': 0x83})
        hy_case('hybrid/offset', {'part_offset': 64, 'mbr_id': 0xfffffffe})
        hy_case('hybrid/offset-odd', {'part_offset': 4097, 'geometry_sectors': 63, 'geometry_heads': 255})
        hy_case('hybrid/reopen', {'mbr_id': 77}, reopen=True)
        hy_case('hybrid/efi', efi=True)
        hy_case('hybrid/efi-big', efi=True, big=5 << 20, efi_size=300000)
        hy_case('hybrid/efi-geom', {'geometry_sectors': 63, 'geometry_heads': 255, 'mbr_id': 5}, efi=True)
        hy_case('hybrid/efi-reopen', efi=True, reopen=True)
        hy_case('hybrid/mac', mac=True)
        hy_case('hybrid/mac-samesize', mac=True, efi_size=9000, mac_size=8193)

        _, good, cat = corruption_tests()
        virtual_disk(bytes(good))
        fuzz(good, cat)
    finally:
        shutil.rmtree(SCRATCH, ignore_errors=True)
    bad = [r for r in RESULTS if r[1] == 'FAIL' or r[1].startswith('KNOWN(')]
    known = [r for r in RESULTS if r[1] == 'KNOWN']
    print('%d cases: %d ok, %d known library issues, %d failing; %.1fs'
          % (len(RESULTS), len(RESULTS) - len(bad) - len(known), len(known), len(bad), time.time() - t0))
    return 1 if bad else 0


if __name__ == '__main__':
    sys.exit(main())
