"""Session: one live PyCdlib object + the reference model + the recorded
history.  Every public call goes through Session.step(op) which records a call
event before invoking and an outcome event after returning (client boundary).

An op is a JSON-able dict {'op': name, ...args}.  bytes values are allowed in
memory and serialised as {'__hex__': ...}.
"""
import io
import json

from harness import blobs, env
from harness.model import Model, Cfg
from harness.vdisk import WriteTracer

DOCUMENTED = ('PyCdlibInvalidInput', 'PyCdlibInvalidISO', 'PyCdlibInternalError')

COUNTERS = {}


def count(name, n=1):
    COUNTERS[name] = COUNTERS.get(name, 0) + n


def ops_to_json(ops):
    def conv(v):
        if isinstance(v, (bytes, bytearray)):
            return {'__hex__': bytes(v).hex()}
        if isinstance(v, tuple):
            return [conv(x) for x in v]
        if isinstance(v, list):
            return [conv(x) for x in v]
        if isinstance(v, dict):
            return {k: conv(x) for k, x in v.items()}
        return v
    return [conv(o) for o in ops]


def ops_from_json(ops):
    def conv(v):
        if isinstance(v, dict):
            if '__hex__' in v and len(v) == 1:
                return bytes.fromhex(v['__hex__'])
            return {k: conv(x) for k, x in v.items()}
        if isinstance(v, list):
            return [conv(x) for x in v]
        return v
    out = [conv(o) for o in ops]
    for o in out:
        for k in ('old', 'new'):
            if k in o and isinstance(o[k], list):
                o[k] = tuple(o[k])
    return out


from harness import monitors as _monitors


class Outcome:
    __slots__ = ('ok', 'exc_class', 'exc_msg', 'exc_where', 'result')

    def __init__(self, ok, exc_class=None, exc_msg=None, exc_where=None, result=None):
        self.ok = ok
        self.exc_class = exc_class
        self.exc_msg = exc_msg
        self.exc_where = exc_where
        self.result = result

    def summary(self):
        if self.ok:
            return 'ok'
        return '%s@%s: %s' % (self.exc_class, self.exc_where, (self.exc_msg or '')[:80])

    def sig(self):
        return 'ok' if self.ok else '%s@%s' % (self.exc_class, self.exc_where)


_RICH = {}


def rich_image():
    """A deterministic image that uses every optional structure at once (Joliet, Rock Ridge with a
    relocated directory and a continuation area, UDF, XA, El Torito with an x86 and two EFI
    entries and a boot info table, isohybrid with GPT and APM, a second PVD, hidden and linked
    entries): what an object has seen before it is close()d and used for another image."""
    if 'img' not in _RICH:
        import pycdlib
        iso = pycdlib.PyCdlib()
        iso.new(interchange_level=3, joliet=3, rock_ridge='1.09', udf='2.60', xa=True, vol_ident='PREVIOUS', sys_ident='OLDSYS')
        p = ''
        for d in range(8):
            p += '/Q%d' % d
            iso.add_directory(p, rr_name='q%d' % d)
        iso.add_directory('/JD', rr_name='jd', joliet_path='/jd', udf_path='/jd')
        iso.add_fp(io.BytesIO(b'old' * 1000), 3000, '/JD/OLD.TXT;1', rr_name='o' * 200, joliet_path='/jd/old.txt', udf_path='/jd/old.txt')
        iso.add_hard_link(iso_old_path='/JD/OLD.TXT;1', iso_new_path='/OLDLINK.;1', rr_name='oldlink')
        iso.add_symlink('/SYM.;1', rr_symlink_name='sym', rr_path='jd/' + 'o' * 200, udf_symlink_path='/sym', udf_target='jd/old.txt')
        boot = bytearray(b'\x00' * 2048)
        boot[0x40:0x44] = b'\xfb\xc0\x78\x70'
        iso.add_fp(io.BytesIO(bytes(boot)), 2048, '/BOOT.;1', rr_name='boot')
        iso.add_eltorito('/BOOT.;1', boot_load_size=4, boot_info_table=True)
        for k in range(2):
            iso.add_fp(io.BytesIO(b'E' * 4096), 4096, '/EFI%d.;1' % k, rr_name='efi%d' % k)
            iso.add_eltorito('/EFI%d.;1' % k, efi=True, platform_id=0xef)
        iso.rm_hard_link(iso_path='/EFI1.;1')
        iso.add_isohybrid(efi=True, mac=True)
        iso.duplicate_pvd()
        iso.set_hidden(iso_path='/OLDLINK.;1')
        out = io.BytesIO()
        iso.write_fp(out)
        iso.close()
        _RICH['img'] = out.getvalue()
    return _RICH['img']


def used_session(seed, how=0, always_consistent=False):
    """A closed Session whose PyCdlib object has held the rich image before: opened from its bytes
    (how 0), opened and edited without writing (how 1).  Pass it as reuse= to the next Session."""
    from harness.model import Cfg
    s = Session(Cfg(level=3, joliet=3, rr='1.09', udf=True, xa=True), seed, always_consistent)
    s.open_bytes(rich_image())
    if how == 1:
        s.iso.add_directory('/NEVER', rr_name='never', joliet_path='/never')
        s.iso.rm_file(iso_path='/OLDLINK.;1')
    s.close()
    count('used_object:%d' % how)
    return s


def first_session(cfg, seed, always_consistent=False):
    """The Session a history starts in: for one seed in sixteen its object has held another image
    before (close() documents the object as reusable), otherwise it is fresh."""
    if seed % 16 == 9:
        return Session(cfg, seed, always_consistent, reuse=used_session(seed, (seed // 16) % 2, always_consistent))
    return Session(cfg, seed, always_consistent)


def innermost_pycdlib_frame(exc):
    tb = exc.__traceback__
    where = None
    while tb is not None:
        code = tb.tb_frame.f_code
        fn = code.co_filename
        if '/pycdlib/' in fn or '/tools/' in fn:
            where = '%s.%s' % (fn.rsplit('/', 1)[1].replace('.py', ''), code.co_qualname if hasattr(code, 'co_qualname') else code.co_name)
        tb = tb.tb_next
    return where or '?'


class Session:
    def __init__(self, cfg, seed=0, always_consistent=False, model=None, clock=1600000000.0, reuse=None):
        import pycdlib
        self.pycdlib = pycdlib
        self.cfg = cfg
        self.seed = seed
        self.always_consistent = always_consistent
        if reuse is not None:
            # the PyCdlib object of an earlier session, closed: close() documents that the object
            # can be used for another image afterwards
            reuse.close()
            self.iso = reuse.iso
        else:
            self.iso = pycdlib.PyCdlib(always_consistent=always_consistent)
        self.model = model if model is not None else Model(cfg)
        self.events = []
        self.ops = []          # every op attempted, in order, with outcome sig
        self.accepted = []     # ops that returned normally
        self.fps = []          # keep add_fp file objects alive
        self.backing = None    # bytes/fp of the image this session was opened from
        self.opened = False
        self.model_errors = []

    # ---- life cycle ---------------------------------------------------------
    def new(self):
        self.iso.new(**self.cfg.new_kwargs())
        self.opened = True
        return self

    def open_bytes(self, data):
        self.backing = io.BytesIO(data) if isinstance(data, (bytes, bytearray)) else data
        self.iso.open_fp(self.backing)
        self.opened = True
        return self

    def close(self):
        if self.opened:
            try:
                self.iso.close()
            except Exception:
                pass
            self.opened = False

    # ---- operations ---------------------------------------------------------
    def make_fp(self, op):
        if op.get('data') is not None:
            return io.BytesIO(op['data'])
        if op['length'] > (8 << 20):
            return blobs.PatternReader(op['cid'], op['length'])
        data = blobs.blob(op['cid'], op['length'])
        if isinstance(op['cid'], int) and (op['cid'] * 7 + op['length']) % 3 == 0:
            # a source stream that holds more than the `length` bytes that make up the file
            # (a member of a larger container): none of the rest belongs to the image
            data += bytes((op['cid'] * 31 + 0x5a + k) & 0xff for k in range(1 + (op['cid'] * 13 + op['length']) % 2500))
        return io.BytesIO(data)

    PATH_KEYS = ('iso_path', 'joliet_path', 'udf_path', 'rr_path', 'iso_old_path', 'iso_new_path', 'joliet_old_path',
                 'joliet_new_path', 'udf_old_path', 'udf_new_path', 'symlink_path', 'udf_symlink_path', 'bootcatfile',
                 'joliet_bootcatfile', 'udf_bootcatfile', 'bootfile_path', 'path')

    def spell(self, op):
        """One path argument in eight is handed to the library in another spelling of the same path
        ('/ZZTOP/../A/B', '/A/./B', '/A//B', '/A/QQ/../B'): every public call documents absolute
        paths and normalises them, so the spelling must not matter.  Deterministic (no draw from any
        generator): the op lists, the model and the witnesses keep the canonical form."""
        import zlib
        out = None
        for k in self.PATH_KEYS:
            v = op.get(k)
            if k == 'rr_path' and op['op'] == 'add_symlink':
                continue                                   # a link target, not a path on the image
            if not isinstance(v, str) or len(v) < 2 or not v.startswith('/') or '/.' in v or '//' in v or v.endswith('/'):
                continue
            salt = zlib.crc32(('%s|%s|%d' % (k, v, len(self.events))).encode('utf-8', 'surrogatepass'))
            if salt % 8:
                continue
            head, _, last = v.rpartition('/')
            how = (salt >> 3) % 4
            if how == 0:
                nv = '/ZZTOP/..' + v
            elif how == 1:
                first, sep, rest = v[1:].partition('/')
                nv = '/' + first + '/.' + sep + rest if sep else '/.' + v
            elif how == 2:
                nv = head + '//' + last
            else:
                nv = head + '/QQ/../' + last
            if out is None:
                out = dict(op)
            out[k] = nv
            count('respelled_paths')
        if out is not None and 'old' in op:
            pass
        return out if out is not None else op

    def call(self, op):
        iso = self.iso
        name = op['op']
        if name == 'add_hard_link' or name.startswith('q_'):
            # (paths of these live in tuples / under a variable key: spelled below)
            op = dict(op)
            if name == 'add_hard_link':
                for which in ('old', 'new'):
                    if op.get(which):
                        ns_, p_ = op[which]
                        op[which] = (ns_, self.spell({'op': name, 'path': p_}).get('path'))
            elif 'path' in op:
                op['path'] = self.spell({'op': name, 'path': op['path']})['path']
        else:
            op = self.spell(op)
        if name == 'add_fp':
            fp = self.make_fp(op)
            self.fps.append(fp)
            kw = {k: op[k] for k in ('iso_path', 'rr_name', 'joliet_path', 'udf_path', 'file_mode') if op.get(k) is not None}
            return iso.add_fp(fp, op['length'], **kw)
        if name == 'add_directory':
            kw = {k: op[k] for k in ('iso_path', 'rr_name', 'joliet_path', 'udf_path', 'file_mode') if op.get(k) is not None}
            if list(kw) == ['joliet_path'] and len(kw['joliet_path']) % 3 == 0:
                return iso.add_joliet_directory(kw['joliet_path'])       # the older spelling of the same call
            return iso.add_directory(**kw)
        if name == 'rm_directory':
            kw = {k: op[k] for k in ('iso_path', 'rr_name', 'joliet_path', 'udf_path') if op.get(k) is not None}
            if list(kw) == ['joliet_path'] and len(kw['joliet_path']) % 3 == 0:
                return iso.rm_joliet_directory(kw['joliet_path'])
            return iso.rm_directory(**kw)
        if name == 'rm_file':
            kw = {k: op[k] for k in ('iso_path', 'rr_name', 'joliet_path', 'udf_path') if op.get(k) is not None}
            return iso.rm_file(**kw)
        if name == 'rm_hard_link':
            kw = {k: op[k] for k in ('iso_path', 'joliet_path', 'udf_path') if op.get(k) is not None}
            return iso.rm_hard_link(**kw)
        if name == 'add_hard_link':
            kw = {}
            if op.get('boot_catalog_old'):
                kw['boot_catalog_old'] = True
            else:
                ons, opath = op['old']
                kw['%s_old_path' % ons] = opath
            nns, npath = op['new']
            kw['%s_new_path' % nns] = npath
            if op.get('rr_name') is not None:
                kw['rr_name'] = op['rr_name']
            return iso.add_hard_link(**kw)
        if name == 'add_symlink':
            kw = {k: op[k] for k in ('symlink_path', 'rr_symlink_name', 'rr_path', 'joliet_path', 'udf_symlink_path', 'udf_target') if op.get(k) is not None}
            return iso.add_symlink(**kw)
        if name in ('set_hidden', 'clear_hidden'):
            kw = {k: op[k] for k in ('iso_path', 'rr_path', 'joliet_path') if op.get(k) is not None}
            return getattr(iso, name)(**kw)
        if name == 'add_eltorito':
            kw = {k: op[k] for k in ('bootcatfile', 'rr_bootcatname', 'joliet_bootcatfile', 'boot_load_size', 'platform_id',
                                     'boot_info_table', 'efi', 'media_name', 'bootable', 'boot_load_seg', 'udf_bootcatfile')
                  if op.get(k) is not None}
            return iso.add_eltorito(op['bootfile_path'], **kw)
        if name == 'rm_eltorito':
            return iso.rm_eltorito()
        if name == 'add_isohybrid':
            kw = {k: v for k, v in op.items() if k != 'op'}
            return iso.add_isohybrid(**kw)
        if name == 'rm_isohybrid':
            return iso.rm_isohybrid()
        if name == 'duplicate_pvd':
            return iso.duplicate_pvd()
        if name == 'set_relocated_name':
            return iso.set_relocated_name(op['name'], op['rr_name'])
        if name == 'force_consistency':
            return iso.force_consistency()
        if name == 'tick':
            env.CLOCK.advance(op.get('seconds', 1))
            return None
        if name == 'clock_tick':
            # from here on every reading of the clock advances it: records made by one call get
            # different creation / modification / attribute / access times
            env.CLOCK.tick = float(op.get('seconds', 1))
            return None
        # queries (no model effect)
        if name == 'q_get_record':
            rec = iso.get_record(**{op['key']: op['path']})
            if rec is None:
                return None
            return (rec.extent_location(), rec.get_data_length())
        if name == 'q_list_children':
            return [c.file_identifier() for c in iso.list_children(**{op['key']: op['path']}) if c is not None]
        if name == 'q_walk':
            return [(a, sorted(b), sorted(c)) for a, b, c in iso.walk(**{op['key']: op['path']})]
        if name == 'q_read':
            buf = io.BytesIO()
            iso.get_file_from_iso_fp(buf, **{op['key']: op['path']})
            return len(buf.getvalue())
        if name == 'q_write':
            out = WriteTracer(keep_events=False)
            iso.write_fp(out)
            return out.size
        if name == 'q_full_path':
            rec = iso.get_record(**{op['key']: op['path']})
            return iso.full_path_from_dirrecord(rec, rockridge=(op['key'] == 'rr_path'))
        if name == 'q_file_mode':
            return iso.file_mode(**{op['key']: op['path']})
        raise ValueError('unknown op %r' % name)

    MODEL_OPS = ('add_fp', 'add_directory', 'rm_directory', 'rm_file', 'rm_hard_link', 'add_hard_link',
                 'add_symlink', 'set_hidden', 'clear_hidden', 'add_eltorito', 'rm_eltorito', 'add_isohybrid',
                 'rm_isohybrid', 'duplicate_pvd', 'set_relocated_name')

    def step(self, op, apply_model=True):
        """Invoke one public call; record call and outcome; update the model iff
        the library accepted the operation."""
        seq = len(self.events)
        self.events.append(('call', seq, op['op']))
        try:
            res = self.call(op)
            out = Outcome(True, result=res)
        except Exception as e:  # the boundary: every exception class is recorded
            out = Outcome(False, type(e).__name__, str(e), innermost_pycdlib_frame(e))
        _monitors.progress()
        self.events.append(('ret', seq, op['op'], out.sig()))
        count('api:%s:%s' % (op['op'], 'ok' if out.ok else out.exc_class))
        self.ops.append((op, out))
        if out.ok:
            self.accepted.append(op)
            if apply_model and op['op'] in self.MODEL_OPS:
                try:
                    self.model.apply(op)
                except (KeyError, TypeError, AttributeError) as e:
                    # the library accepted an operation on something the model
                    # does not have: recorded, decided by the caller
                    self.model_errors.append((op, '%s: %s' % (type(e).__name__, e)))
        return out

    # ---- mastering ----------------------------------------------------------
    WRITE_BLOCKSIZES = (32768, 32768, 2048, 1000, 65536, 100000, 2049, 512)

    def write(self, virtual=False, blocksize=None):
        """write_fp into a tracer.  Returns (tracer | None, Outcome).  The copy block size (which must
        not influence the image) is taken from the seed unless given."""
        if blocksize is None:
            blocksize = self.WRITE_BLOCKSIZES[self.seed % len(self.WRITE_BLOCKSIZES)]
            count('write_blocksize:%d' % blocksize)
        out = WriteTracer(virtual=virtual)
        seq = len(self.events)
        self.events.append(('call', seq, 'write_fp'))
        try:
            self.iso.write_fp(out, blocksize=blocksize)
            oc = Outcome(True)
        except Exception as e:
            oc = Outcome(False, type(e).__name__, str(e), innermost_pycdlib_frame(e))
        _monitors.progress()
        self.events.append(('ret', seq, 'write_fp', oc.sig()))
        count('api:write_fp:%s' % ('ok' if oc.ok else oc.exc_class))
        return (out if oc.ok else None), oc

    def reopen(self, image, reuse=False):
        """Open the written image in a fresh object (or, with reuse, in this session's own object
        after close()); the model is carried over (a deep copy that switches to parsed link
        semantics)."""
        m = self.model.clone()
        m.reopened()
        s = Session(self.cfg, self.seed, self.always_consistent, model=m, reuse=self if reuse else None)
        seq = len(self.events)
        try:
            data = image if isinstance(image, (bytes, bytearray)) else (image.getvalue() if not image.virtual else None)
            if data is None:
                s.backing = DiskReader(image)
                s.iso.open_fp(s.backing)
                s.opened = True
            else:
                s.open_bytes(data)
            oc = Outcome(True)
        except Exception as e:
            oc = Outcome(False, type(e).__name__, str(e), innermost_pycdlib_frame(e))
        _monitors.progress()
        count('api:open_fp:%s' % ('ok' if oc.ok else oc.exc_class))
        return s, oc


class DiskReader(io.RawIOBase):
    """Read-only file object over a bytes-like (incl. a virtual disk)."""

    def __init__(self, disk):
        super().__init__()
        self.disk = disk
        self.pos = 0
        self.reads = 0
        self.bytes_read = 0
        self.mode = 'rb'

    def readable(self):
        return True

    def seekable(self):
        return True

    def tell(self):
        return self.pos

    def seek(self, offset, whence=0):
        new = offset if whence == 0 else (self.pos + offset if whence == 1 else len(self.disk) + offset)
        # what io.BytesIO (and, with OSError, a real file) does with positions no file can have
        if new < 0:
            raise ValueError('negative seek value %d' % new)
        if new > 0x7fffffffffffffff:
            raise OverflowError('Python int too large to convert to C ssize_t')
        self.pos = new
        return self.pos

    def read(self, size=-1):
        if size is None or size < 0:
            size = max(0, len(self.disk) - self.pos)
        end = min(len(self.disk), self.pos + size)
        data = self.disk[self.pos:end] if end > self.pos else b''
        self.pos += len(data)
        self.reads += 1
        self.bytes_read += len(data)
        return data

    def readinto(self, b):
        data = self.read(len(b))
        b[:len(data)] = data
        return len(data)


def replay(cfg, ops, seed=0, always_consistent=False, clock=1600000000.0):
    """Execute a recorded op list on a fresh object (twin execution)."""
    env.reset(seed, clock)
    s = first_session(cfg, seed, always_consistent).new()
    for op in ops:
        s, out = advance(s, op)
        if op['op'] == 'reopen' and not out.ok:
            s.reopen_failed = out.summary()
            break
    return s


def advance(s, op):
    """One step of a recorded history.  The marker {'op': 'reopen'} masters the image and continues
    on a fresh object that opened it; returns (session to continue with, Outcome)."""
    if op['op'] == 'renew':
        # marker: close() the object and make a new image (possibly of another configuration) in
        # it; the history so far is dropped from the model, the accepted list keeps everything
        from harness.model import Cfg as _Cfg
        cfg2 = _Cfg.from_json(op['cfg'])
        s2 = Session(cfg2, s.seed, s.always_consistent, reuse=s)
        try:
            s2.new()
        except Exception as e:
            return s, Outcome(False, type(e).__name__, 'new() in the closed object: %s' % e, innermost_pycdlib_frame(e))
        s2.accepted = list(s.accepted) + [op]
        s2.ops = list(s.ops) + [(op, Outcome(True))]
        return s2, Outcome(True)
    if op['op'] != 'reopen':
        return s, s.step(op)
    img, oc = s.write()
    if not oc.ok:
        return s, Outcome(False, oc.exc_class, 'write before reopen: %s' % oc.exc_msg, oc.exc_where)
    s2, oc2 = s.reopen(img, reuse=bool(op.get('reuse')))
    if not oc2.ok:
        s2.close()
        return s, Outcome(False, oc2.exc_class, 'open: %s' % oc2.exc_msg, oc2.exc_where)
    # the new session carries the whole accepted history, marker included, so that replaying
    # session.accepted reproduces it
    s2.accepted = list(s.accepted) + [op]
    s2.ops = list(s.ops) + [(op, Outcome(True))]
    s.close()
    return s2, Outcome(True)


def dump_replay(path, prop, cfg, ops, seed, extra=None):
    import os
    os.makedirs(os.path.dirname(path), exist_ok=True)
    with open(path, 'w') as f:
        json.dump({'property': prop, 'cfg': cfg.to_json() if cfg is not None else None, 'seed': seed,
                   'ops': ops_to_json(ops), 'extra': extra or {}}, f, indent=1, default=repr)
