"""Budget monitors: logical step counting with sys.monitoring (PEP 669).

StepMonitor counts Python function entries (PY_START/PY_RESUME/PY_THROW) and
loop back-edges (JUMP) executed inside pycdlib code and raises BudgetExceeded
(a BaseException, so that no 'except Exception' in the code under test can
swallow it) when the budget is exhausted: an endless loop becomes a
deterministic, replayable verdict with the loop site on the stack.
"""
import sys

TOOL = 3


class BudgetExceeded(BaseException):
    pass


class StepMonitor:
    def __init__(self, path_fragment='/pycdlib/'):
        self.frag = path_fragment
        self.steps = 0
        self.budget = None
        self.active = False
        self.by_func = {}
        self.last_code = None

    def start(self, budget=None, track=False):
        mon = sys.monitoring
        self.steps = 0
        self.budget = budget
        self.track = track
        self.by_func = {}
        try:
            mon.use_tool_id(TOOL, 'verif-steps')
        except ValueError:
            pass
        ev = mon.events
        mon.register_callback(TOOL, ev.PY_START, self._start)
        mon.register_callback(TOOL, ev.PY_RESUME, self._start)
        mon.register_callback(TOOL, ev.JUMP, self._jump)
        mon.set_events(TOOL, ev.PY_START | ev.PY_RESUME | ev.JUMP)
        self.active = True

    def stop(self):
        mon = sys.monitoring
        if self.active:
            mon.set_events(TOOL, 0)
            self.active = False
        return self.steps

    def _start(self, code, offset):
        if self.frag not in code.co_filename:
            return sys.monitoring.DISABLE
        self.steps += 1
        if self.track:
            k = code.co_qualname
            self.by_func[k] = self.by_func.get(k, 0) + 1
        self.last_code = code
        if self.budget is not None and self.steps > self.budget:
            self.budget = None
            raise BudgetExceeded('%s' % code.co_qualname)

    def _jump(self, code, offset, dest):
        if self.frag not in code.co_filename:
            return sys.monitoring.DISABLE
        if dest < offset:
            self.steps += 1
            self.last_code = code
            if self.budget is not None and self.steps > self.budget:
                self.budget = None
                raise BudgetExceeded('%s' % code.co_qualname)


class HangGuard(StepMonitor):
    """Process-wide watchdog in logical steps.  Armed once per case by the worker; every progress
    point of the harness (a public call returned) resets the segment counter.  A segment that
    executes more than SEGMENT_BUDGET function entries + loop back-edges inside pycdlib is
    reported as non-termination (the deciding quantity is logical steps, not wall time)."""
    SEGMENT_BUDGET = 20_000_000
    TOOL = 4

    def __init__(self):
        super().__init__()
        self.max_segment = 0
        self.total = 0

    def arm(self):
        mon = sys.monitoring
        self.steps = 0
        self.max_segment = 0
        self.total = 0
        self.budget = self.SEGMENT_BUDGET
        self.track = False
        try:
            mon.use_tool_id(self.TOOL, 'verif-hang')
        except ValueError:
            pass
        ev = mon.events
        mon.register_callback(self.TOOL, ev.PY_START, self._start)
        mon.register_callback(self.TOOL, ev.PY_RESUME, self._start)
        mon.register_callback(self.TOOL, ev.JUMP, self._jump)
        mon.set_events(self.TOOL, ev.PY_START | ev.PY_RESUME | ev.JUMP)
        self.active = True

    def disarm(self):
        if self.active:
            sys.monitoring.set_events(self.TOOL, 0)
            self.active = False
        self.progress()

    def progress(self):
        if self.steps > self.max_segment:
            self.max_segment = self.steps
        self.total += self.steps
        self.steps = 0
        if self.active:
            self.budget = self.SEGMENT_BUDGET


GUARD = HangGuard()


def progress():
    GUARD.progress()
