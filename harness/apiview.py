"""The image as seen through pycdlib's public API (walk / list_children /
get_record / get_file_from_iso_fp), in the same shape as Model.view():

  {path: (kind, length, data-or-None, target, hidden)}

Only public API calls are used; attribute reads are limited to the documented
record accessors.
"""
import io

from harness import blobs

KEY = {'iso': 'iso_path', 'rr': 'rr_path', 'joliet': 'joliet_path', 'udf': 'udf_path'}


class PatternSink:
    """Output object that checks a stream against blob(cid) without storing it."""

    def __init__(self, cid, length):
        self.cid = cid
        self.length = length
        self.pos = 0
        self.ok = True
        self.first_bad = None

    def write(self, data):
        if self.ok:
            if blobs.span(self.cid, self.length, self.pos, len(data)) != data:
                self.ok = False
                self.first_bad = self.pos
        self.pos += len(data)
        return len(data)


def _join(parent, name):
    return (parent if parent != '/' else '') + '/' + name


def view(iso, ns, with_data=True, max_data=8 << 20, expect=None):
    """expect: optional {path: (cid, length)} for files too large to buffer (checked with
    a PatternSink; the returned data is then ('pattern', cid, ok))."""
    key = KEY[ns]
    out = {}
    for dirpath, dirs, files in iso.walk(**{key: '/'}):
        for d in dirs:
            p = _join(dirpath, d)
            rec = iso.get_record(**{key: p})
            hidden = False
            if ns != 'udf':
                hidden = bool(rec.file_flags & 1)
            out[p] = ('dir', None, None, None, hidden)
        for f in files:
            p = _join(dirpath, f)
            rec = iso.get_record(**{key: p})
            if rec is None:
                # UDF identifier pointing at an "empty" file entry
                out[p] = ('file', 0, b'', None, False)
                continue
            if ns == 'udf':
                if rec.is_symlink():
                    out[p] = ('symlink', None, None, None, False)
                    continue
                length = rec.get_data_length()
                hidden = False
            else:
                hidden = bool(rec.file_flags & 1)
                if ns == 'rr' and rec.is_symlink():
                    out[p] = ('symlink', None, None, rec.rock_ridge.symlink_path().decode('utf-8', 'surrogateescape'), hidden)
                    continue
                length = rec.get_data_length()
                # multi-extent files: get_record returns the first record; the
                # total is what the extraction yields
            data = None
            if with_data:
                if expect is not None and p in expect and length > max_data:
                    sink = PatternSink(*expect[p])
                    iso.get_file_from_iso_fp(sink, blocksize=1 << 20, **{key: p})
                    data = ('pattern', expect[p][0], sink.ok and sink.pos)
                    length = sink.pos
                elif length <= max_data or ns != 'udf':
                    buf = io.BytesIO()
                    try:
                        iso.get_file_from_iso_fp(buf, **{key: p})
                        data = buf.getvalue()
                        length = len(data)
                    except Exception as e:  # recorded, compared as a mismatch
                        data = ('error', type(e).__name__, str(e))
            out[p] = ('file', length, data, None, hidden)
    return out


def consistency(iso, ns, av, limit=400):
    """Cross-checks between the public query calls for the entries of a view: the path
    full_path_from_dirrecord() gives for a record found at path p is p again, and list_children()
    of a directory names exactly the entries walk() reported below it.  Returns [(key, detail)]."""
    key = KEY[ns]
    probs = []
    children = {}
    for p in av:
        parent = p.rsplit('/', 1)[0] or '/'
        children.setdefault(parent, set()).add(p.rsplit('/', 1)[1])
    n = 0
    for p, e in sorted(av.items()):
        if n >= limit:
            break
        n += 1
        try:
            rec = iso.get_record(**{key: p})
        except Exception as ex:
            probs.append(('api:get_record-raises:%s' % type(ex).__name__, '%s %s: %s' % (ns, p, ex)))
            continue
        if rec is None:
            continue
        try:
            fp = iso.full_path_from_dirrecord(rec, rockridge=(ns == 'rr'))
        except Exception as ex:
            probs.append(('api:full_path-raises:%s' % type(ex).__name__, '%s %s: %s' % (ns, p, ex)))
            continue
        if fp != p:
            probs.append(('api:full_path:%s' % ns, 'record found at %r reports the path %r' % (p[:100], fp[:100])))
        if e[0] == 'dir':
            try:
                names = set()
                for c in iso.list_children(**{key: p}):
                    if c is None:
                        continue
                    if ns == 'udf':
                        if c.is_dotdot() if hasattr(c, 'is_dotdot') else False:
                            continue
                        nm = iso.full_path_from_dirrecord(c).rsplit('/', 1)[1]
                    else:
                        if c.is_dot() or c.is_dotdot():
                            continue
                        nm = iso.full_path_from_dirrecord(c, rockridge=(ns == 'rr')).rsplit('/', 1)[1]
                    names.add(nm)
            except Exception as ex:
                probs.append(('api:list_children-raises:%s' % type(ex).__name__, '%s %s: %s' % (ns, p, ex)))
                continue
            want = children.get(p, set())
            if names != want:
                probs.append(('api:list_children:%s' % ns, '%r lists %s, walk() reported %s' % (p[:80], sorted(names ^ want)[:4], len(want))))
    return probs
