"""The image as seen through pycdlib's public API (walk / list_children /
get_record / get_file_from_iso_fp), in the same shape as Model.view():

  {path: (kind, length, data-or-None, target, hidden)}

Only public API calls are used; attribute reads are limited to the documented
record accessors.
"""
import io

from harness import blobs

KEY = {'iso': 'iso_path', 'rr': 'rr_path', 'joliet': 'joliet_path', 'udf': 'udf_path'}


class PatternSink:
    """Output object that checks a stream against blob(cid) without storing it."""

    def __init__(self, cid, length):
        self.cid = cid
        self.length = length
        self.pos = 0
        self.ok = True
        self.first_bad = None

    def write(self, data):
        if self.ok:
            if blobs.span(self.cid, self.length, self.pos, len(data)) != data:
                self.ok = False
                self.first_bad = self.pos
        self.pos += len(data)
        return len(data)


def _join(parent, name):
    return (parent if parent != '/' else '') + '/' + name


def view(iso, ns, with_data=True, max_data=8 << 20, expect=None):
    """expect: optional {path: (cid, length)} for files too large to buffer (checked with
    a PatternSink; the returned data is then ('pattern', cid, ok))."""
    key = KEY[ns]
    out = {}
    for dirpath, dirs, files in iso.walk(**{key: '/'}):
        for d in dirs:
            p = _join(dirpath, d)
            rec = iso.get_record(**{key: p})
            hidden = False
            if ns != 'udf':
                hidden = bool(rec.file_flags & 1)
            out[p] = ('dir', None, None, None, hidden)
        for f in files:
            p = _join(dirpath, f)
            rec = iso.get_record(**{key: p})
            if rec is None:
                # UDF identifier pointing at an "empty" file entry
                out[p] = ('file', 0, b'', None, False)
                continue
            if ns == 'udf':
                if rec.is_symlink():
                    out[p] = ('symlink', None, None, None, False)
                    continue
                length = rec.get_data_length()
                hidden = False
            else:
                hidden = bool(rec.file_flags & 1)
                if ns == 'rr' and rec.is_symlink():
                    out[p] = ('symlink', None, None, rec.rock_ridge.symlink_path().decode('utf-8', 'surrogateescape'), hidden)
                    continue
                length = rec.get_data_length()
                # multi-extent files: get_record returns the first record; the
                # total is what the extraction yields
            data = None
            if with_data:
                if expect is not None and p in expect and length > max_data:
                    sink = PatternSink(*expect[p])
                    iso.get_file_from_iso_fp(sink, blocksize=1 << 20, **{key: p})
                    data = ('pattern', expect[p][0], sink.ok and sink.pos)
                    length = sink.pos
                elif length <= max_data or ns != 'udf':
                    buf = io.BytesIO()
                    # (a third of the extractions go into a stream that already holds something:
                    # several members extracted one after the other into one file)
                    lead = (len(p) * 131 + length) % 700 if (len(p) + length) % 3 == 0 else 0
                    buf.write(b'\xa7' * lead)
                    try:
                        iso.get_file_from_iso_fp(buf, **{key: p})
                        data = buf.getvalue()[lead:]
                        length = len(data)
                    except Exception as e:  # recorded, compared as a mismatch
                        data = ('error', type(e).__name__, str(e))
            out[p] = ('file', length, data, None, hidden)
    return out


def consistency(iso, ns, av, limit=400):
    """Cross-checks between the public query calls for the entries of a view: the path
    full_path_from_dirrecord() gives for a record found at path p is p again, and list_children()
    of a directory names exactly the entries walk() reported below it.  Returns [(key, detail)]."""
    key = KEY[ns]
    probs = []
    children = {}
    for p in av:
        parent = p.rsplit('/', 1)[0] or '/'
        children.setdefault(parent, set()).add(p.rsplit('/', 1)[1])
    n = 0
    for p, e in sorted(av.items()):
        if n >= limit:
            break
        n += 1
        try:
            rec = iso.get_record(**{key: p})
        except Exception as ex:
            probs.append(('api:get_record-raises:%s' % type(ex).__name__, '%s %s: %s' % (ns, p, ex)))
            continue
        if rec is None:
            continue
        try:
            fp = iso.full_path_from_dirrecord(rec, rockridge=(ns == 'rr'))
        except Exception as ex:
            probs.append(('api:full_path-raises:%s' % type(ex).__name__, '%s %s: %s' % (ns, p, ex)))
            continue
        if fp != p:
            probs.append(('api:full_path:%s' % ns, 'record found at %r reports the path %r' % (p[:100], fp[:100])))
        if ns in ('iso', 'joliet'):
            # the older spellings of the same queries
            try:
                rec2 = iso.get_entry(p, joliet=(ns == 'joliet'))
                if rec2 is not rec:
                    probs.append(('api:get_entry:%s' % ns, '%r: get_entry() and get_record() return different records' % p[:100]))
            except Exception as ex:
                probs.append(('api:get_entry-raises:%s' % type(ex).__name__, '%s %s: %s' % (ns, p[:80], ex)))
            if e[0] == 'file' and isinstance(e[2], (bytes, bytearray)) and len(e[2]) <= 65536 and ns == 'iso':
                try:
                    buf = io.BytesIO()
                    iso.get_and_write_fp(p, buf, blocksize=4096)
                    # (on Joliet images the same string may also be a Joliet path, which wins)
                    if buf.getvalue() != bytes(e[2]) and not iso.has_joliet():
                        probs.append(('api:get_and_write_fp', '%r: %d bytes, get_file_from_iso_fp gave %d' % (p[:100], len(buf.getvalue()), len(e[2]))))
                except Exception as ex:
                    if not iso.has_joliet():
                        probs.append(('api:get_and_write_fp-raises:%s' % type(ex).__name__, '%s: %s' % (p[:80], ex)))
        if ns == 'rr':
            try:
                fm = iso.file_mode(rr_path=p)
                px = rec.rock_ridge.get_file_mode() if rec.rock_ridge is not None and (rec.rock_ridge.dr_entries.px_record is not None or rec.rock_ridge.ce_entries.px_record is not None) else None
                if fm != px:
                    probs.append(('api:file_mode', '%r: file_mode() %r, the record says %r' % (p[:100], fm, px)))
            except Exception as ex:
                probs.append(('api:file_mode-raises:%s' % type(ex).__name__, '%s: %s' % (p[:80], ex)))
        if e[0] == 'dir':
            try:
                names = set()
                for c in iso.list_children(**{key: p}):
                    if c is None:
                        continue
                    if ns == 'udf':
                        if c.is_dotdot() if hasattr(c, 'is_dotdot') else False:
                            continue
                        nm = iso.full_path_from_dirrecord(c).rsplit('/', 1)[1]
                    else:
                        if c.is_dot() or c.is_dotdot():
                            continue
                        nm = iso.full_path_from_dirrecord(c, rockridge=(ns == 'rr')).rsplit('/', 1)[1]
                    names.add(nm)
            except Exception as ex:
                probs.append(('api:list_children-raises:%s' % type(ex).__name__, '%s %s: %s' % (ns, p, ex)))
                continue
            want = children.get(p, set())
            if ns in ('iso', 'joliet'):
                try:
                    old_names = {iso.full_path_from_dirrecord(c).rsplit('/', 1)[1] for c in iso.list_dir(p, joliet=(ns == 'joliet'))
                                 if c is not None and not c.is_dot() and not c.is_dotdot()}
                    if old_names != names:
                        probs.append(('api:list_dir:%s' % ns, '%r: list_dir() and list_children() differ in %s' % (p[:80], sorted(old_names ^ names)[:4])))
                except Exception as ex:
                    probs.append(('api:list_dir-raises:%s' % type(ex).__name__, '%s %s: %s' % (ns, p[:80], ex)))
            if names != want:
                probs.append(('api:list_children:%s' % ns, '%r lists %s, walk() reported %s' % (p[:80], sorted(names ^ want)[:4], len(want))))
    return probs
