"""The image as seen through pycdlib's public API (walk / list_children /
get_record / get_file_from_iso_fp), in the same shape as Model.view():

  {path: (kind, length, data-or-None, target, hidden)}

Only public API calls are used; attribute reads are limited to the documented
record accessors.
"""
import io

from harness import blobs

KEY = {'iso': 'iso_path', 'rr': 'rr_path', 'joliet': 'joliet_path', 'udf': 'udf_path'}


class PatternSink:
    """Output object that checks a stream against blob(cid) without storing it."""

    def __init__(self, cid, length):
        self.cid = cid
        self.length = length
        self.pos = 0
        self.ok = True
        self.first_bad = None

    def write(self, data):
        if self.ok:
            if blobs.span(self.cid, self.length, self.pos, len(data)) != data:
                self.ok = False
                self.first_bad = self.pos
        self.pos += len(data)
        return len(data)


def _join(parent, name):
    return (parent if parent != '/' else '') + '/' + name


def view(iso, ns, with_data=True, max_data=8 << 20, expect=None):
    """expect: optional {path: (cid, length)} for files too large to buffer (checked with
    a PatternSink; the returned data is then ('pattern', cid, ok))."""
    key = KEY[ns]
    out = {}
    for dirpath, dirs, files in iso.walk(**{key: '/'}):
        for d in dirs:
            p = _join(dirpath, d)
            rec = iso.get_record(**{key: p})
            hidden = False
            if ns != 'udf':
                hidden = bool(rec.file_flags & 1)
            out[p] = ('dir', None, None, None, hidden)
        for f in files:
            p = _join(dirpath, f)
            rec = iso.get_record(**{key: p})
            if rec is None:
                # UDF identifier pointing at an "empty" file entry
                out[p] = ('file', 0, b'', None, False)
                continue
            if ns == 'udf':
                if rec.is_symlink():
                    out[p] = ('symlink', None, None, None, False)
                    continue
                length = rec.get_data_length()
                hidden = False
            else:
                hidden = bool(rec.file_flags & 1)
                if ns == 'rr' and rec.is_symlink():
                    out[p] = ('symlink', None, None, rec.rock_ridge.symlink_path().decode('utf-8', 'surrogateescape'), hidden)
                    continue
                length = rec.get_data_length()
                # multi-extent files: get_record returns the first record; the
                # total is what the extraction yields
            data = None
            if with_data:
                if expect is not None and p in expect and length > max_data:
                    sink = PatternSink(*expect[p])
                    iso.get_file_from_iso_fp(sink, blocksize=1 << 20, **{key: p})
                    data = ('pattern', expect[p][0], sink.ok and sink.pos)
                    length = sink.pos
                elif length <= max_data or ns != 'udf':
                    buf = io.BytesIO()
                    try:
                        iso.get_file_from_iso_fp(buf, **{key: p})
                        data = buf.getvalue()
                        length = len(data)
                    except Exception as e:  # recorded, compared as a mismatch
                        data = ('error', type(e).__name__, str(e))
            out[p] = ('file', length, data, None, hidden)
    return out
